// Package run wraps the gofasta entry points that cmd/ calls, for in-process
// execution with in-memory readers and writers.
package run

import (
	"bytes"
	"os"
	"path/filepath"
	"runtime"
	"sort"
	"strings"

	"github.com/virus-evolution/gofasta/pkg/closest"
	"github.com/virus-evolution/gofasta/pkg/sam"
	"github.com/virus-evolution/gofasta/pkg/snps"
	"github.com/virus-evolution/gofasta/pkg/updown"
	"github.com/virus-evolution/gofasta/pkg/variants"
)

func ToMultiAlign(samText string, wrap, start, end int, pad bool, threads int) (string, error) {
	var out bytes.Buffer
	err := sam.ToMultiAlign(strings.NewReader(samText), &out, wrap, start, end, pad, threads)
	if err != nil {
		// the call returned early; goroutines it started may still write to out
		return "", err
	}
	return out.String(), nil
}

// ToPairAlignDir runs sam.ToPairAlign in directory mode and returns file name -> content.
func ToPairAlignDir(samText, refFasta, dir string, wrap, start, end int, omitRef, omitIns bool, threads int) (map[string]string, error) {
	return ToPairAlignDirStale(samText, refFasta, dir, wrap, start, end, omitRef, omitIns, threads, nil)
}

// ToPairAlignDirStale is ToPairAlignDir into a directory that already holds (longer) files of
// an earlier run under the given names.
func ToPairAlignDirStale(samText, refFasta, dir string, wrap, start, end int, omitRef, omitIns bool, threads int, stale map[string]string) (map[string]string, error) {
	os.RemoveAll(dir)
	if len(stale) > 0 {
		os.MkdirAll(dir, 0755)
		for n, c := range stale {
			os.WriteFile(filepath.Join(dir, n), []byte(c), 0644)
		}
	}
	err := sam.ToPairAlign(strings.NewReader(samText), strings.NewReader(refFasta), dir, wrap, start, end, omitRef, omitIns, threads)
	files := map[string]string{}
	ents, _ := os.ReadDir(dir)
	for _, e := range ents {
		b, _ := os.ReadFile(filepath.Join(dir, e.Name()))
		files[e.Name()] = string(b)
	}
	os.RemoveAll(dir)
	return files, err
}

func SamVariants(samText string, refFasta string, refFromFile bool, anno, suffix string, start, end int, aggregate bool, threshold float64, appendSNP bool, threads int) (string, error) {
	var out bytes.Buffer
	var refR *strings.Reader
	if refFromFile {
		refR = strings.NewReader(refFasta)
	}
	var err error
	if refFromFile {
		err = sam.Variants(strings.NewReader(samText), refR, true, strings.NewReader(anno), suffix, &out, start, end, aggregate, threshold, appendSNP, threads)
	} else {
		err = sam.Variants(strings.NewReader(samText), nil, false, strings.NewReader(anno), suffix, &out, start, end, aggregate, threshold, appendSNP, threads)
	}
	if err != nil {
		// the call returned early; goroutines it started may still write to out
		return "", err
	}
	return out.String(), nil
}

// Variants runs variants.Variants on an in-memory MSA (file semantics: the
// reference is looked up by ID anywhere in the alignment).
func Variants(msa string, refID string, anno, suffix string, start, end int, aggregate bool, threshold float64, appendSNP bool, threads int) (string, error) {
	var out bytes.Buffer
	err := variants.Variants(bytes.NewReader([]byte(msa)), false, refID, strings.NewReader(anno), suffix, &out, start, end, aggregate, threshold, appendSNP, threads)
	if err != nil {
		// the call returned early; goroutines it started may still write to out
		return "", err
	}
	return out.String(), nil
}

func SNPs(ref, aln string, hardGaps, aggregate bool, threshold float64) (string, error) {
	var out bytes.Buffer
	err := snps.SNPs(strings.NewReader(ref), strings.NewReader(aln), hardGaps, aggregate, threshold, &out)
	if err != nil {
		// the call returned early; goroutines it started may still write to out
		return "", err
	}
	return out.String(), nil
}

func Closest(query, target, measure string, threads int) (string, error) {
	var out bytes.Buffer
	before := runtime.GOMAXPROCS(0)
	err := closest.Closest(strings.NewReader(query), strings.NewReader(target), measure, &out, threads)
	runtime.GOMAXPROCS(before)
	if err != nil {
		// the call returned early; goroutines it started may still write to out
		return "", err
	}
	return out.String(), nil
}

func ClosestN(n int, maxdist float64, query, target, measure string, table bool, threads int) (string, error) {
	var out bytes.Buffer
	before := runtime.GOMAXPROCS(0)
	err := closest.ClosestN(n, maxdist, strings.NewReader(query), strings.NewReader(target), measure, &out, table, threads)
	runtime.GOMAXPROCS(before)
	if err != nil {
		// the call returned early; goroutines it started may still write to out
		return "", err
	}
	return out.String(), nil
}

func UpdownList(ref, aln string) (string, error) {
	var out bytes.Buffer
	err := updown.List(strings.NewReader(ref), strings.NewReader(aln), &out)
	if err != nil {
		// the call returned early; goroutines it started may still write to out
		return "", err
	}
	return out.String(), nil
}

// TopRankingOpts mirrors the command-line options of updown topranking.
type TopRankingOpts struct {
	Table                                           bool
	Ignore                                          []string
	SizeTotal, SizeUp, SizeDown, SizeSide, SizeSame int
	DistAll, DistUp, DistDown, DistSide             int
	ThreshPair                                      float32
	ThreshTarget                                    int
	NoFill                                          bool
	DistPush                                        int
}

func TopRanking(query, target, ref string, qtype, ttype string, o TopRankingOpts) (string, error) {
	var out bytes.Buffer
	ign := o.Ignore
	if ign == nil {
		ign = []string{}
	}
	err := updown.TopRanking(strings.NewReader(query), strings.NewReader(target), strings.NewReader(ref), &out, o.Table,
		qtype, ttype, ign, o.SizeTotal, o.SizeUp, o.SizeDown, o.SizeSide, o.SizeSame,
		o.DistAll, o.DistUp, o.DistDown, o.DistSide, o.ThreshPair, o.ThreshTarget, o.NoFill, o.DistPush)
	if err != nil {
		// the call returned early; goroutines it started may still write to out
		return "", err
	}
	return out.String(), nil
}

// SortedKeys is a small helper for deterministic iteration.
func SortedKeys(m map[string]string) []string {
	var ks []string
	for k := range m {
		ks = append(ks, k)
	}
	sort.Strings(ks)
	return ks
}
