package model

// Base sets: bit 1=A, 2=C, 4=G, 8=T.
var baseSet = map[byte]uint8{
	'A': 1, 'C': 2, 'G': 4, 'T': 8,
	'R': 1 | 4, 'Y': 2 | 8, 'S': 2 | 4, 'W': 1 | 8, 'K': 4 | 8, 'M': 1 | 2,
	'B': 2 | 4 | 8, 'D': 1 | 4 | 8, 'H': 1 | 2 | 8, 'V': 1 | 2 | 4,
	'N': 15, '?': 15,
}

// Alphabet17 is the 17-symbol alphabet of the properties.
const Alphabet17 = "ACGTRYSWKMBDHVN-?"

// Upper folds ASCII letters to upper case.
func Upper(c byte) byte {
	if c >= 'a' && c <= 'z' {
		return c - 32
	}
	return c
}

// SetOf returns the set of bases a symbol denotes. '-' denotes any base, or no
// base under hard gaps. ok=false for a symbol outside the alphabet.
func SetOf(c byte, hardGaps bool) (uint8, bool) {
	c = Upper(c)
	if c == '-' {
		if hardGaps {
			return 0, true
		}
		return 15, true
	}
	s, ok := baseSet[c]
	return s, ok
}

// Disjoint reports whether two symbols certainly differ.
func Disjoint(a, b byte, hardGaps bool) bool {
	sa, _ := SetOf(a, hardGaps)
	sb, _ := SetOf(b, hardGaps)
	return sa&sb == 0
}

// IsACGT reports whether c is an unambiguous base (either case).
func IsACGT(c byte) bool {
	switch Upper(c) {
	case 'A', 'C', 'G', 'T':
		return true
	}
	return false
}

// SetSize is the number of bases a symbol denotes ('-' and '?' count as 4).
func SetSize(c byte) int {
	s, _ := SetOf(c, false)
	n := 0
	for s != 0 {
		n += int(s & 1)
		s >>= 1
	}
	return n
}

// SymbolOfSet returns the IUPAC letter for a non-empty base set.
func SymbolOfSet(s uint8) byte {
	for _, c := range []byte("ACGTRYSWKMBDHVN") {
		if baseSet[c] == s {
			return c
		}
	}
	return 0
}

// ComplementSet maps A<->T and C<->G inside a set.
func ComplementSet(s uint8) uint8 {
	var o uint8
	if s&1 != 0 {
		o |= 8
	}
	if s&8 != 0 {
		o |= 1
	}
	if s&2 != 0 {
		o |= 4
	}
	if s&4 != 0 {
		o |= 2
	}
	return o
}
