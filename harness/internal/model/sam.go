// Package model holds the reference models. They are transcriptions of the
// property statements, work on characters and explicit base sets, and share no
// code with gofasta.
package model

import (
	"strings"

	"verifharness/internal/gen"
)

// ProjectRecord walks one record's CIGAR and returns a row of L cells:
// 0 = not covered, a letter = aligned query base, '-' = deleted position.
// It also returns the insertions as (number of reference bases to the left,
// inserted bases).
type Insertion struct {
	After int // number of reference bases to the left of the insertion
	Seq   string
}

func ProjectRecord(rc gen.Rec, L int) ([]byte, []Insertion) {
	row := make([]byte, L)
	var ins []Insertion
	q := 0
	p := rc.Pos
	for _, o := range rc.Cigar {
		switch o.T {
		case 'M', '=', 'X':
			for i := 0; i < o.N; i++ {
				if p < L {
					row[p] = rc.Seq[q]
				}
				p++
				q++
			}
		case 'D':
			for i := 0; i < o.N; i++ {
				if p < L {
					row[p] = '-'
				}
				p++
			}
		case 'N':
			p += o.N
		case 'I':
			ins = append(ins, Insertion{After: p, Seq: rc.Seq[q : q+o.N]})
			q += o.N
		case 'S':
			q += o.N
		case 'H', 'P':
		}
	}
	return row, ins
}

func isLetter(c byte) bool { return (c >= 'A' && c <= 'Z') || (c >= 'a' && c <= 'z') }

// Flatten merges the rows of one query: a base beats a deletion beats no
// coverage; two different bases give 'N'. 0 = still uncovered.
func Flatten(rows [][]byte, L int) (row []byte, conflicts int) {
	row = make([]byte, L)
	for j := 0; j < L; j++ {
		var letter byte
		nl := 0
		gap := false
		for _, r := range rows {
			c := r[j]
			if isLetter(c) {
				if nl == 0 {
					letter = c
					nl = 1
				} else if c != letter {
					nl = 2
				}
			} else if c == '-' {
				gap = true
			}
		}
		switch {
		case nl >= 2:
			row[j] = 'N'
			conflicts++
		case nl == 1:
			row[j] = letter
		case gap:
			row[j] = '-'
		}
	}
	return
}

// FillUncovered applies the flank rule of toMultiAlign.
func FillUncovered(row []byte, pad bool) []byte {
	out := make([]byte, len(row))
	copy(out, row)
	first, last := -1, -1
	for i, c := range row {
		if isLetter(c) {
			if first < 0 {
				first = i
			}
			last = i
		}
	}
	for i, c := range out {
		if c != 0 {
			continue
		}
		if pad {
			out[i] = 'N'
		} else if i < first || i > last {
			out[i] = '-'
		} else {
			out[i] = 'N'
		}
	}
	return out
}

// MultiAlignRow is the expected toMultiAlign row of a query (before wrapping).
// start/end are 1-based inclusive or -1.
func MultiAlignRow(q gen.Query, L int, pad bool, start, end int) (string, int) {
	var rows [][]byte
	for _, rc := range q.Recs {
		r, _ := ProjectRecord(rc, L)
		rows = append(rows, r)
	}
	flat, conflicts := Flatten(rows, L)
	row := FillUncovered(flat, pad)
	s, e := 1, L
	trim := false
	if start != -1 {
		s = start
		trim = true
	}
	if end != -1 {
		e = end
		trim = true
	}
	if trim {
		if pad {
			for i := range row {
				if i < s-1 || i >= e {
					row[i] = 'N'
				}
			}
		} else {
			row = row[s-1 : e]
		}
	}
	return string(row), conflicts
}

// FastaText renders records the way gofasta writes alignments.
func FastaText(names []string, rows []string, wrap int) string {
	var sb strings.Builder
	for i := range names {
		sb.WriteString(">" + names[i] + "\n")
		sb.WriteString(gen.WrapSeq(rows[i], wrap))
	}
	return sb.String()
}

// PairAlign is the expected toPairAlign pair of a query, derived from the
// records: for p = 0..L emit the insertion columns that sit after p reference
// bases, then the column (ref[p], flattened cell p) with uncovered -> 'N'.
// It returns the reference row and the query row (untrimmed).
func PairAlign(q gen.Query, ref string) (refRow, qRow string, nIns int) {
	L := len(ref)
	var rows [][]byte
	insAt := map[int][]string{}
	for _, rc := range q.Recs {
		r, ins := ProjectRecord(rc, L)
		rows = append(rows, r)
		for _, in := range ins {
			insAt[in.After] = append(insAt[in.After], in.Seq)
		}
	}
	flat, _ := Flatten(rows, L)
	var rb, qb strings.Builder
	for p := 0; p <= L; p++ {
		for _, s := range insAt[p] {
			rb.WriteString(strings.Repeat("-", len(s)))
			qb.WriteString(s)
			nIns++
		}
		if p < L {
			rb.WriteByte(ref[p])
			c := flat[p]
			if c == 0 {
				c = 'N'
			}
			qb.WriteByte(c)
		}
	}
	return rb.String(), qb.String(), nIns
}

// CutPair cuts an (untrimmed) pair from the column of reference base s to the
// column of reference base e (1-based, inclusive).
func CutPair(refRow, qRow string, s, e int) (string, string) {
	n := 0
	a, b := -1, -1
	for i := 0; i < len(refRow); i++ {
		if refRow[i] != '-' {
			n++
			if n == s && a < 0 {
				a = i
			}
			if n == e {
				b = i
			}
		}
	}
	if a < 0 || b < 0 {
		return "", ""
	}
	return refRow[a : b+1], qRow[a : b+1]
}
