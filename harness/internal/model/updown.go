package model

// UDRel is the relation of one (query, target) pair with respect to the
// reference, computed from the sequences (not from SNP lists).
type UDRel struct {
	Qonly, Shared, Tonly, Amb int
	Dist                      int
	Dir                       int // 0 same, 1 up, 2 down, 3 side
}

// UpdownRelation evaluates the pair column by column. ref must be A/C/G/T.
func UpdownRelation(ref, q, t string) UDRel {
	var u UDRel
	for i := 0; i < len(ref); i++ {
		r, a, b := Upper(ref[i]), Upper(q[i]), Upper(t[i])
		rs, _ := SetOf(r, false)
		qSNP, tSNP := false, false
		if IsACGT(a) {
			s, _ := SetOf(a, false)
			qSNP = s&rs == 0
		}
		if IsACGT(b) {
			s, _ := SetOf(b, false)
			tSNP = s&rs == 0
		}
		differs := false
		if qSNP {
			switch {
			case !IsACGT(b):
				u.Amb++
			case a == b:
				u.Shared++
			default:
				u.Qonly++
				differs = true
			}
		}
		if tSNP {
			switch {
			case !IsACGT(a):
				u.Amb++
			case a == b:
			default:
				u.Tonly++
				differs = true
			}
		}
		if differs {
			u.Dist++
		}
	}
	switch {
	case u.Qonly == 0 && u.Tonly == 0:
		u.Dir = 0
	case u.Qonly > 0 && u.Tonly == 0:
		u.Dir = 1
	case u.Qonly == 0 && u.Tonly > 0:
		u.Dir = 2
	default:
		u.Dir = 3
	}
	return u
}

// PassesPairThreshold mirrors the documented "proportion of consequential
// sites that is ambiguous" test in float32.
func (u UDRel) PassesPairThreshold(thresh float32) bool {
	sum := u.Qonly + u.Shared + u.Tonly + u.Amb
	return !(float32(u.Amb)/float32(sum) > thresh)
}

// AmbCount is the number of non-A/C/G/T symbols of a sequence.
func AmbCount(s string) int {
	n := 0
	for i := 0; i < len(s); i++ {
		if !IsACGT(s[i]) {
			n++
		}
	}
	return n
}
