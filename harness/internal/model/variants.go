package model

import (
	"fmt"
	"sort"
	"strconv"
	"strings"

	"verifharness/internal/gen"
)

// PairView is a gapped (reference row, query row) pair seen column-wise.
type PairView struct {
	RefRow, QRow string
	ColOfRef     []int // column of each reference base (0-based index by 0-based ref position)
}

func NewPairView(refRow, qRow string) PairView {
	pv := PairView{RefRow: refRow, QRow: qRow}
	for i := 0; i < len(refRow); i++ {
		if refRow[i] != '-' {
			pv.ColOfRef = append(pv.ColOfRef, i)
		}
	}
	return pv
}

// RefLen is the ungapped reference length.
func (pv PairView) RefLen() int { return len(pv.ColOfRef) }

// QAt returns the query symbol aligned to 1-based reference position p.
func (pv PairView) QAt(p int) byte { return Upper(pv.QRow[pv.ColOfRef[p-1]]) }

// RAt returns the reference symbol at 1-based position p.
func (pv PairView) RAt(p int) byte { return Upper(pv.RefRow[pv.ColOfRef[p-1]]) }

// SNP is a certainly-different site.
type SNP struct {
	Pos  int
	R, Q byte
}

// SNPs lists the reference positions whose base set is disjoint from the
// query's at the aligned column.
func (pv PairView) SNPs() []SNP {
	var out []SNP
	for p := 1; p <= pv.RefLen(); p++ {
		r, q := pv.RAt(p), pv.QAt(p)
		if Disjoint(r, q, false) {
			out = append(out, SNP{p, r, q})
		}
	}
	return out
}

// Indel is an expected ins/del record.
type Indel struct {
	Kind string // "ins" / "del"
	Pos  int
	Len  int
}

func (i Indel) String() string { return fmt.Sprintf("%s:%d:%d", i.Kind, i.Pos, i.Len) }

// Indels scans the pair after dropping both-gap columns.
func (pv PairView) Indels() []Indel {
	var out []Indel
	L := pv.RefLen()
	P := 0 // reference bases seen
	insLen := 0
	insAt := 0
	delLen := 0
	delStart := 0
	flushIns := func() {
		if insLen > 0 {
			out = append(out, Indel{"ins", insAt, insLen})
			insLen = 0
		}
	}
	flushDel := func() {
		if delLen > 0 {
			if delStart != 1 && delStart+delLen-1 != L {
				out = append(out, Indel{"del", delStart, delLen})
			}
			delLen = 0
		}
	}
	for i := 0; i < len(pv.RefRow); i++ {
		r, q := pv.RefRow[i], pv.QRow[i]
		if r == '-' && q == '-' {
			continue
		}
		if r == '-' {
			if insLen == 0 {
				insAt = P
			}
			insLen++
			continue
		}
		// a reference base
		flushIns()
		P++
		if q == '-' {
			if delLen == 0 {
				delStart = P
			}
			delLen++
		} else {
			flushDel()
		}
	}
	flushIns()
	flushDel()
	return out
}

// AACall is an expected or observed amino-acid record.
type AACall struct {
	Feature string
	K       int
	R, Q    byte
}

func (a AACall) String() string { return fmt.Sprintf("aa:%s:%c%d%c", a.Feature, a.R, a.K, a.Q) }

func complementSymbol(c byte) byte {
	if c == '-' || c == '?' {
		return c
	}
	s, ok := SetOf(c, false)
	if !ok {
		return c
	}
	return SymbolOfSet(ComplementSet(s))
}

// CodonInfo describes one codon of a feature in a pair.
type CodonInfo struct {
	Positions [3]int
	RefAA     byte
	QAA       byte // 0 = undefined (gap or '?' in the codon), 'X' = ambiguous
	NSNP      int
}

// Codons evaluates every codon of a feature against the pair.
func (pv PairView) Codons(f gen.Feature) []CodonInfo {
	pos := f.CodingPositions()
	var out []CodonInfo
	for k := 0; k+2 < len(pos); k += 3 {
		var ci CodonInfo
		var rc, qc [3]byte
		undefined := false
		for j := 0; j < 3; j++ {
			p := pos[k+j]
			ci.Positions[j] = p
			r, q := pv.RAt(p), pv.QAt(p)
			if Disjoint(r, q, false) {
				ci.NSNP++
			}
			if f.Strand < 0 {
				r, q = complementSymbol(r), complementSymbol(q)
			}
			rc[j], qc[j] = r, q
			if q == '-' || q == '?' {
				undefined = true
			}
		}
		ra, _ := TranslateAmbig(string(rc[:]))
		ci.RefAA = ra
		if !undefined {
			qa, ok := TranslateAmbig(string(qc[:]))
			if ok {
				ci.QAA = qa
			}
		}
		out = append(out, ci)
	}
	return out
}

// ExpectedAA lists the aa records the property demands for the named features.
func (pv PairView) ExpectedAA(feats []gen.Feature) []AACall {
	var out []AACall
	for _, f := range feats {
		if f.Name == "" {
			continue
		}
		for k, ci := range pv.Codons(f) {
			if ci.QAA != 0 && ci.QAA != 'X' && ci.QAA != ci.RefAA {
				out = append(out, AACall{f.Name, k + 1, ci.RefAA, ci.QAA})
			}
		}
	}
	return out
}

// Translate returns the protein of a feature on the reference (with final stop).
func TranslateFeature(ref string, f gen.Feature) string {
	pos := f.CodingPositions()
	var sb strings.Builder
	for k := 0; k+2 < len(pos); k += 3 {
		var c [3]byte
		for j := 0; j < 3; j++ {
			c[j] = Upper(ref[pos[k+j]-1])
			if f.Strand < 0 {
				c[j] = complementSymbol(c[j])
			}
		}
		a, _ := TranslateAmbig(string(c[:]))
		sb.WriteByte(a)
	}
	return sb.String()
}

// ---------------------------------------------------------------------------
// parsing observed mutation lists

// Mut is one parsed mutation string.
type Mut struct {
	Raw     string
	Kind    string // nuc aa ins del
	Pos     int    // nuc position, indel position
	Len     int
	R, Q    byte
	Feature string
	K       int
	Inner   []Mut // nuc records inside an aa record's parentheses
}

func parseNuc(s string) (Mut, bool) {
	// nuc:A123T
	if !strings.HasPrefix(s, "nuc:") || len(s) < 7 {
		return Mut{}, false
	}
	b := s[4:]
	p, err := strconv.Atoi(b[1 : len(b)-1])
	if err != nil {
		return Mut{}, false
	}
	return Mut{Raw: s, Kind: "nuc", Pos: p, R: b[0], Q: b[len(b)-1]}, true
}

// ParseMutation parses one mutation string as written by variants.
func ParseMutation(s string) (Mut, bool) {
	switch {
	case strings.HasPrefix(s, "nuc:"):
		return parseNuc(s)
	case strings.HasPrefix(s, "ins:"), strings.HasPrefix(s, "del:"):
		f := strings.Split(s, ":")
		if len(f) != 3 {
			return Mut{}, false
		}
		p, e1 := strconv.Atoi(f[1])
		l, e2 := strconv.Atoi(f[2])
		if e1 != nil || e2 != nil {
			return Mut{}, false
		}
		return Mut{Raw: s, Kind: f[0], Pos: p, Len: l}, true
	case strings.HasPrefix(s, "aa:"):
		body := s
		var inner []Mut
		if i := strings.IndexByte(s, '('); i >= 0 {
			if !strings.HasSuffix(s, ")") {
				return Mut{}, false
			}
			body = s[:i]
			in := s[i+1 : len(s)-1]
			if in != "" {
				for _, x := range strings.Split(in, ";") {
					m, ok := parseNuc(x)
					if !ok {
						return Mut{}, false
					}
					inner = append(inner, m)
				}
			}
		}
		f := strings.Split(body, ":")
		if len(f) != 3 || len(f[2]) < 3 {
			return Mut{}, false
		}
		k, err := strconv.Atoi(f[2][1 : len(f[2])-1])
		if err != nil {
			return Mut{}, false
		}
		return Mut{Raw: s, Kind: "aa", Feature: f[1], K: k, R: f[2][0], Q: f[2][len(f[2])-1], Inner: inner}, true
	}
	return Mut{}, false
}

// ParseVariantsCSV parses "query,mutations" output into per-query lists.
func ParseVariantsCSV(out string) (names []string, muts [][]Mut, ok bool) {
	lines := strings.Split(strings.TrimSuffix(out, "\n"), "\n")
	if len(lines) == 0 || lines[0] != "query,mutations" {
		return nil, nil, false
	}
	for _, l := range lines[1:] {
		i := strings.IndexByte(l, ',')
		if i < 0 {
			return nil, nil, false
		}
		names = append(names, l[:i])
		var ms []Mut
		if l[i+1:] != "" {
			for _, s := range strings.Split(l[i+1:], "|") {
				m, ok := ParseMutation(s)
				if !ok {
					return nil, nil, false
				}
				ms = append(ms, m)
			}
		}
		muts = append(muts, ms)
	}
	return names, muts, true
}

// SortedStrings returns a sorted copy.
func SortedStrings(s []string) []string {
	o := append([]string{}, s...)
	sort.Strings(o)
	return o
}
