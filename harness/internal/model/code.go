package model

// Standard genetic code (NCBI table 1), amino acids in TCAG x TCAG x TCAG order.
const stdCode = "FFLLSSSSYY**CC*WLLLLPPPPHHQQRRRRIIIMTTTTNNKKSSRRVVVVAAAADDEEGGGG"

func tcagIndex(b byte) int {
	switch b {
	case 'T':
		return 0
	case 'C':
		return 1
	case 'A':
		return 2
	case 'G':
		return 3
	}
	return -1
}

// TranslateCodon returns the product of an unambiguous codon.
func TranslateCodon(a, b, c byte) byte {
	return stdCode[16*tcagIndex(a)+4*tcagIndex(b)+tcagIndex(c)]
}

var bitBase = []byte{'A', 'C', 'G', 'T'}

// TranslateAmbig returns the single product of every A/C/G/T expansion of an
// IUPAC codon, or 'X' when the expansions disagree. ok=false when a symbol is
// not one of the 15 nucleotide codes.
func TranslateAmbig(codon string) (byte, bool) {
	if len(codon) != 3 {
		return 'X', false
	}
	var sets [3]uint8
	for i := 0; i < 3; i++ {
		c := Upper(codon[i])
		s, ok := baseSet[c]
		if !ok || c == '?' {
			return 'X', false
		}
		sets[i] = s
	}
	var prod byte
	for i := 0; i < 4; i++ {
		if sets[0]&(1<<uint(i)) == 0 {
			continue
		}
		for j := 0; j < 4; j++ {
			if sets[1]&(1<<uint(j)) == 0 {
				continue
			}
			for k := 0; k < 4; k++ {
				if sets[2]&(1<<uint(k)) == 0 {
					continue
				}
				p := TranslateCodon(bitBase[i], bitBase[j], bitBase[k])
				if prod == 0 {
					prod = p
				} else if prod != p {
					return 'X', true
				}
			}
		}
	}
	return prod, true
}

// ComplementBase complements one unambiguous base.
func ComplementBase(b byte) byte {
	switch b {
	case 'A':
		return 'T'
	case 'T':
		return 'A'
	case 'C':
		return 'G'
	case 'G':
		return 'C'
	}
	return b
}
