package model

import (
	"math"
)

// PairCounts are the per-pair column counts the distance definitions use.
type PairCounts struct {
	N    int // columns with disjoint base sets
	Same int // columns where both carry the same unambiguous base
	P1   int // A<->G differences among both-A/C/G/T columns
	P2   int // C<->T differences
	Tv   int // transversions
	Res  int // columns where both are A/C/G/T
}

func Counts(q, t string) PairCounts {
	var c PairCounts
	for i := 0; i < len(q) && i < len(t); i++ {
		a, b := Upper(q[i]), Upper(t[i])
		if Disjoint(a, b, false) {
			c.N++
		}
		if IsACGT(a) && IsACGT(b) {
			c.Res++
			if a == b {
				c.Same++
			} else {
				switch {
				case (a == 'A' && b == 'G') || (a == 'G' && b == 'A'):
					c.P1++
				case (a == 'C' && b == 'T') || (a == 'T' && b == 'C'):
					c.P2++
				default:
					c.Tv++
				}
			}
		}
	}
	return c
}

// Completeness is the genome completeness score of a sequence: sum of 12/|set|.
func Completeness(s string) int {
	n := 0
	for i := 0; i < len(s); i++ {
		n += 12 / SetSize(s[i])
	}
	return n
}

// TN93 evaluates Tamura & Nei (1993) eq. 7 with base frequencies from the
// target's A/C/G/T counts. defined=false when a frequency is zero, there is no
// jointly resolved column or a logarithm's argument is not safely positive.
func TN93(q, t string) (float64, bool) {
	c := Counts(q, t)
	var cA, cC, cG, cT float64
	for i := 0; i < len(t); i++ {
		switch Upper(t[i]) {
		case 'A':
			cA++
		case 'C':
			cC++
		case 'G':
			cG++
		case 'T':
			cT++
		}
	}
	tot := cA + cC + cG + cT
	if tot == 0 || c.Res == 0 || cA == 0 || cC == 0 || cG == 0 || cT == 0 {
		return math.NaN(), false
	}
	gA, gC, gG, gT := cA/tot, cC/tot, cG/tot, cT/tot
	gR, gY := gA+gG, gC+gT
	P1 := float64(c.P1) / float64(c.Res)
	P2 := float64(c.P2) / float64(c.Res)
	Q := float64(c.Tv) / float64(c.Res)
	a1 := 1 - gR/(2*gA*gG)*P1 - Q/(2*gR)
	a2 := 1 - gY/(2*gT*gC)*P2 - Q/(2*gY)
	a3 := 1 - Q/(2*gR*gY)
	if a1 <= 1e-6 || a2 <= 1e-6 || a3 <= 1e-6 {
		return math.NaN(), false
	}
	d := -(2*gA*gG/gR)*math.Log(a1) - (2*gT*gC/gY)*math.Log(a2) - 2*(gR*gY-gA*gG*gY/gR-gT*gC*gR/gY)*math.Log(a3)
	return d, true
}
