// Package fw is the shared machinery of the runtime-monitoring harness:
// deterministic case lists, worker processes with journals (so that a panic or
// deadlock inside gofasta is attributed to the case that caused it), verdict
// discipline, evidence files, known-findings matching and replay directories.
package fw

import (
	"bufio"
	"bytes"
	"encoding/json"
	"fmt"
	"io"
	"os"
	"os/exec"
	"path/filepath"
	"regexp"
	"runtime"
	"sort"
	"strconv"
	"strings"
	"sync"
	"time"

	"github.com/virus-evolution/gofasta/pkg/verifhook"
)

// Violation is one observed refutation of a property.
type Violation struct {
	Class string            `json:"class"` // structural class of the failing case (known-finding matching)
	Msg   string            `json:"msg"`
	Files map[string]string `json:"files,omitempty"`
	Argv  []string          `json:"argv,omitempty"`
}

// Result is what one case reports.
type Result struct {
	Evals        int                 `json:"evals"`
	Sigs         []string            `json:"sigs,omitempty"`
	Counters     map[string]int      `json:"counters,omitempty"`
	Sets         map[string][]string `json:"sets,omitempty"`
	Viol         []Violation         `json:"viol,omitempty"`
	Inconclusive []string            `json:"inconclusive,omitempty"`
	Sample       interface{}         `json:"sample,omitempty"`
}

func (r *Result) Count(k string, n int) {
	if r.Counters == nil {
		r.Counters = map[string]int{}
	}
	r.Counters[k] += n
}

func (r *Result) Sig(s string) { r.Sigs = append(r.Sigs, s) }

func (r *Result) AddSet(name, v string) {
	if r.Sets == nil {
		r.Sets = map[string][]string{}
	}
	r.Sets[name] = append(r.Sets[name], v)
}

func (r *Result) Fail(class, msg string, files map[string]string, argv []string) {
	if len(r.Viol) >= 3 {
		return
	}
	r.Viol = append(r.Viol, Violation{Class: class, Msg: msg, Files: files, Argv: argv})
}

// Ctx is handed to a property's Run function.
type Ctx struct {
	Seed    uint64
	Tier    string
	Tmp     string // scratch directory of this worker
	Bin     string // path of the gofasta binary built from the tree under test
	BinRace string // race-built gofasta binary (may be empty)
	Replay  bool
}

// Thorough reports whether the thorough tier is running.
func (c *Ctx) Thorough() bool { return c.Tier == "thorough" }

// Property describes one check.
type Property struct {
	ID          string
	Level       string // exploration | fault_enumeration
	Rule        string
	Assumptions []string
	Exhaustive  bool
	Race        bool // run workers from the race-built harness and scan race logs
	MinNontriv  int
	Cases       func(tier string) int
	Run         func(c *Ctx, idx int) Result
	// Finalize may inspect the aggregate (counters, set sizes) and add
	// inconclusive notes or violations that only exist at run level.
	Finalize func(a *Agg)
	// HangIsViolation: a closed-system deadlock observed while running a case
	// counts as a violation of this property (default true).
	HangNotViolation bool
	Workers          int
	CaseTimeout      time.Duration
	// RaceSample: in addition to the ordinary (uninstrumented) workers, every 127th case is run
	// again in a race-built worker process and its race reports count as violations.
	RaceSample bool
	// Jitter: every third case of this property runs with the seeded scheduling jitter of
	// the verif hooks switched on (completion order != input order at the stage boundaries).
	Jitter bool
}

var registry = map[string]*Property{}

func Register(p *Property) { registry[p.ID] = p }

func Get(id string) *Property { return registry[id] }

func IDs() []string {
	var ids []string
	for k := range registry {
		ids = append(ids, k)
	}
	sort.Strings(ids)
	return ids
}

// ---------------------------------------------------------------------------
// paths

func VerifDir() string {
	if d := os.Getenv("VERIF_DIR"); d != "" {
		return d
	}
	return "/verif"
}

// OutDir is where evidence/ and replay/ are written (VERIF_OUT overrides it
// when the monitors are validated against a scratch copy of the repository).
func OutDir() string {
	if d := os.Getenv("VERIF_OUT"); d != "" {
		return d
	}
	return VerifDir()
}

func BuildDir() string {
	if d := os.Getenv("VERIF_BUILD"); d != "" {
		return d
	}
	return filepath.Join(VerifDir(), ".build")
}

func SeedFromEnv() uint64 {
	if s := os.Getenv("VERIF_SEED"); s != "" {
		if v, err := strconv.ParseUint(s, 10, 64); err == nil {
			return v
		}
	}
	return 1
}

// ---------------------------------------------------------------------------
// worker side

// WorkerMain runs the cases of one shard and journals them.
func WorkerMain(args []string) int {
	// args: ID tier seed shard nshards from journal
	if len(args) != 7 {
		fmt.Fprintln(os.Stderr, "worker: bad args")
		return 2
	}
	p := Get(args[0])
	if p == nil {
		fmt.Fprintln(os.Stderr, "worker: unknown property", args[0])
		return 2
	}
	tier := args[1]
	seed, _ := strconv.ParseUint(args[2], 10, 64)
	shard, _ := strconv.Atoi(args[3])
	nshards, _ := strconv.Atoi(args[4])
	from, _ := strconv.Atoi(args[5])
	jf, err := os.OpenFile(args[6], os.O_CREATE|os.O_WRONLY|os.O_APPEND, 0644)
	if err != nil {
		fmt.Fprintln(os.Stderr, "worker: journal:", err)
		return 2
	}
	defer jf.Close()
	tmp := filepath.Join(BuildDir(), "tmp", fmt.Sprintf("%s-%d-%d", p.ID, os.Getpid(), shard))
	os.MkdirAll(tmp, 0755)
	defer os.RemoveAll(tmp)
	ctx := &Ctx{Seed: seed, Tier: tier, Tmp: tmp, Bin: os.Getenv("VERIF_GOFASTA_BIN"), BinRace: os.Getenv("VERIF_GOFASTA_BIN_RACE")}
	// gofasta writes warnings to os.Stderr (the variable); keep fd 2 for the
	// runtime (panics, race reports).
	if dn, err := os.OpenFile(os.DevNull, os.O_WRONLY, 0); err == nil {
		os.Stderr = dn
	}
	n := p.Cases(tier)
	timeout := p.CaseTimeout
	if timeout == 0 {
		timeout = 120 * time.Second
	}
	if s := os.Getenv("VERIF_CASE_TIMEOUT_S"); s != "" {
		if v, err := strconv.Atoi(s); err == nil {
			timeout = time.Duration(v) * time.Second
		}
	}
	for idx := from; idx < n; idx++ {
		if idx%nshards != shard {
			continue
		}
		jf.WriteString(fmt.Sprintf("B %d\n", idx))
		done := make(chan Result, 1)
		jittered := p.Jitter && idx%3 == 2
		if jittered {
			verifhook.SetJitter(Mix(seed ^ uint64(idx)*0x9e3779b97f4a7c15))
			verifhook.SetRecord(true)
		} else if p.Jitter {
			verifhook.SetJitter(0)
		}
		go func() {
			r := p.Run(ctx, idx)
			if jittered {
				// what the hooks saw: stage hand-offs, and how many of them happened out of input order
				ev := verifhook.Drain()
				verifhook.SetRecord(false)
				last := map[string]int{}
				ooo := 0
				nj := 0
				for _, e := range ev {
					if e.Kind != 'J' {
						continue
					}
					nj++
					if l, ok := last[e.Site]; ok && e.Idx < l {
						ooo++
					}
					if e.Idx > last[e.Site] {
						last[e.Site] = e.Idx
					}
				}
				r.Count("jitter_cases", 1)
				r.Count("jitter_handoffs_observed", nj)
				r.Count("jitter_handoffs_out_of_input_order", ooo)
			}
			done <- r
		}()
		select {
		case res := <-done:
			b, _ := json.Marshal(res)
			jf.Write(append(append([]byte(fmt.Sprintf("E %d ", idx)), b...), '\n'))
		case <-time.After(timeout):
			buf := make([]byte, 8<<20)
			m := runtime.Stack(buf, true)
			verdict := AnalyseDump(string(buf[:m]))
			dumpPath := args[6] + fmt.Sprintf(".hang.%d", idx)
			os.WriteFile(dumpPath, buf[:m], 0644)
			jf.WriteString(fmt.Sprintf("H %d %s %s\n", idx, verdict, dumpPath))
			os.RemoveAll(tmp)
			return 4
		}
	}
	jf.WriteString("DONE\n")
	return 0
}

var reGoroutineHdr = regexp.MustCompile(`(?m)^goroutine \d+ (?:gp=\S+ m=\S+ (?:mp=\S+ )?)?\[([^\]]+)\]:`)

// AnalyseDump decides whether a goroutine dump shows a closed-system deadlock
// among the goroutines that run gofasta code: every goroutine with a gofasta
// frame is blocked on a channel operation (or a WaitGroup / select) and none
// is running, runnable, in a syscall, sleeping or waiting for I/O.
func AnalyseDump(dump string) string {
	blocks := strings.Split(dump, "\n\n")
	gofasta := 0
	blocked := 0
	for _, b := range blocks {
		m := reGoroutineHdr.FindStringSubmatch(b)
		if m == nil {
			continue
		}
		if !strings.Contains(b, "virus-evolution/gofasta") {
			continue
		}
		gofasta++
		st := m[1]
		if i := strings.Index(st, ","); i >= 0 {
			st = st[:i]
		}
		switch st {
		case "chan send", "chan receive", "select", "semacquire", "sync.WaitGroup.Wait", "chan send (nil chan)", "chan receive (nil chan)", "select (no cases)", "sync.Mutex.Lock", "sync.Cond.Wait":
			blocked++
		}
	}
	if gofasta > 0 && gofasta == blocked {
		return "deadlock"
	}
	if gofasta == 0 {
		return "no-gofasta-goroutines"
	}
	return "busy"
}

// ---------------------------------------------------------------------------
// parent side

// Agg is the aggregate of a run.
type Agg struct {
	Prop         *Property
	Tier         string
	Seed         uint64
	Evals        int
	Sigs         map[string]bool
	Counters     map[string]int
	Sets         map[string]map[string]bool
	Viol         []caseViolation
	Inconclusive []string
	Samples      []interface{}
	CasesRun     int
	Crashes      int
	Hangs        int
	RaceBlocks   int
	RaceDistinct []string
}

type caseViolation struct {
	Idx int
	V   Violation
}

func (a *Agg) AddViolation(idx int, v Violation) { a.Viol = append(a.Viol, caseViolation{idx, v}) }

type knownFinding struct {
	Status   string `json:"status"`
	Property string `json:"property"`
	Class    string `json:"class,omitempty"`
	Commit   string `json:"commit,omitempty"`
	What     string `json:"what"`
}

func loadKnown() []knownFinding {
	var f struct {
		Findings []knownFinding `json:"findings"`
	}
	b, err := os.ReadFile(filepath.Join(VerifDir(), "known_findings.json"))
	if err != nil {
		return nil
	}
	if json.Unmarshal(b, &f) != nil {
		return nil
	}
	return f.Findings
}

type shardState struct {
	shard   int
	from    int
	journal string
	stderr  string
	crashes int
	hangs   int
}

// RunMain is the parent: it runs all cases of a property in worker processes,
// aggregates, writes evidence and prints the verdict. Returns the exit code.
func RunMain(id, tier string) int {
	p := Get(id)
	if p == nil {
		fmt.Fprintln(os.Stderr, "unknown property", id)
		return 2
	}
	if tier != "quick" && tier != "thorough" {
		fmt.Fprintln(os.Stderr, "tier must be quick or thorough")
		return 2
	}
	start := time.Now()
	seed := SeedFromEnv()
	self, _ := os.Executable()
	workerBin := self
	if p.Race {
		if rb := os.Getenv("VERIF_VCHECK_RACE"); rb != "" {
			workerBin = rb
		}
	}
	runDir := filepath.Join(BuildDir(), "run", fmt.Sprintf("%s-%d", id, os.Getpid()))
	os.RemoveAll(runDir)
	os.MkdirAll(runDir, 0755)
	defer os.RemoveAll(runDir)
	replayRoot := filepath.Join(OutDir(), "replay", id)
	os.RemoveAll(replayRoot)

	n := p.Cases(tier)
	nshards := p.Workers
	if nshards == 0 {
		nshards = runtime.NumCPU()
		if nshards > 16 {
			nshards = 16
		}
	}
	if nshards > n {
		nshards = n
	}
	if nshards < 1 {
		nshards = 1
	}
	agg := &Agg{Prop: p, Tier: tier, Seed: seed, Sigs: map[string]bool{}, Counters: map[string]int{}, Sets: map[string]map[string]bool{}}
	var mu sync.Mutex
	var wg sync.WaitGroup
	for s := 0; s < nshards; s++ {
		wg.Add(1)
		go func(s int) {
			defer wg.Done()
			st := &shardState{shard: s, from: 0,
				journal: filepath.Join(runDir, fmt.Sprintf("journal.%d", s)),
				stderr:  filepath.Join(runDir, fmt.Sprintf("stderr.%d", s))}
			for {
				os.Remove(st.journal)
				cmd := exec.Command(workerBin, "worker", id, tier, strconv.FormatUint(seed, 10), strconv.Itoa(s), strconv.Itoa(nshards), strconv.Itoa(st.from), st.journal)
				ef, _ := os.Create(st.stderr)
				cmd.Stderr = ef
				cmd.Stdout = ef
				env := os.Environ()
				if p.Race {
					env = append(env, "GORACE=halt_on_error=0 atexit_sleep_ms=0 log_path="+filepath.Join(runDir, "race"))
				}
				cmd.Env = env
				err := cmd.Run()
				ef.Close()
				last, complete, hang := readJournal(st.journal, agg, &mu)
				if complete && err == nil {
					return
				}
				// the worker died or hung on case `last`
				errText := tailFile(st.stderr, 6000)
				mu.Lock()
				if hang != "" {
					agg.Hangs++
					parts := strings.SplitN(hang, " ", 2)
					verdict := parts[0]
					dump := ""
					if len(parts) > 1 {
						if b, e := os.ReadFile(parts[1]); e == nil {
							dump = string(b)
						}
					}
					if verdict == "deadlock" && !p.HangNotViolation {
						agg.AddViolation(last, Violation{Class: "hang:deadlock", Msg: "closed-system deadlock: every goroutine running gofasta code is blocked on a channel operation", Files: map[string]string{"goroutines.txt": dump}})
					} else {
						agg.Inconclusive = append(agg.Inconclusive, fmt.Sprintf("case %d: watchdog fired, dump verdict %s", last, verdict))
					}
				} else if last >= 0 {
					agg.Crashes++
					agg.AddViolation(last, Violation{Class: "crash", Msg: "worker process died while running this case (panic / fatal error in gofasta code): " + firstPanicLine(errText), Files: map[string]string{"stderr.txt": errText}})
				} else {
					agg.Inconclusive = append(agg.Inconclusive, fmt.Sprintf("shard %d: worker failed before any case: %v: %s", s, err, errText))
					mu.Unlock()
					return
				}
				mu.Unlock()
				st.crashes++
				if hang != "" {
					st.hangs++
				}
				mu.Lock()
				totalHangs := agg.Hangs
				mu.Unlock()
				if st.hangs >= 5 || (hang != "" && totalHangs >= 8) {
					// every hang costs a full case timeout; the verdict is already decided
					mu.Lock()
					agg.Inconclusive = append(agg.Inconclusive, fmt.Sprintf("shard %d: abandoned after %d hangs in this shard, %d in the run", s, st.hangs, totalHangs))
					mu.Unlock()
					return
				}
				if st.crashes > 25 {
					mu.Lock()
					agg.Inconclusive = append(agg.Inconclusive, fmt.Sprintf("shard %d: more than 25 crashes, shard abandoned", s))
					mu.Unlock()
					return
				}
				st.from = last + 1
			}
		}(s)
	}
	// the race sampler: a 1/127 sample of the same cases under the race detector
	raceSampled := false
	if p.RaceSample && !p.Race {
		if rb := os.Getenv("VERIF_VCHECK_RACE"); rb != "" {
			if _, err := os.Stat(rb); err == nil {
				raceSampled = true
				wg.Add(1)
				go func() {
					defer wg.Done()
					journal := filepath.Join(runDir, "journal.race")
					cmd := exec.Command(rb, "worker", id, tier, strconv.FormatUint(seed, 10), "0", "127", "0", journal)
					ef, _ := os.Create(filepath.Join(runDir, "stderr.race"))
					cmd.Stderr = ef
					cmd.Stdout = ef
					cmd.Env = append(os.Environ(), "GORACE=halt_on_error=0 atexit_sleep_ms=0 log_path="+filepath.Join(runDir, "race"))
					err := cmd.Run()
					ef.Close()
					tmp := &Agg{Prop: p, Tier: tier, Seed: seed, Sigs: map[string]bool{}, Counters: map[string]int{}, Sets: map[string]map[string]bool{}}
					var tmu sync.Mutex
					last, complete, hang := readJournal(journal, tmp, &tmu)
					mu.Lock()
					defer mu.Unlock()
					agg.Counters["race_sample_cases"] += tmp.CasesRun
					for _, v := range tmp.Viol {
						agg.Viol = append(agg.Viol, v)
					}
					if !complete || err != nil {
						if hang != "" {
							agg.Inconclusive = append(agg.Inconclusive, fmt.Sprintf("race sample: watchdog fired on case %d (%s)", last, strings.SplitN(hang, " ", 2)[0]))
						} else if last >= 0 {
							errText := tailFile(filepath.Join(runDir, "stderr.race"), 6000)
							agg.AddViolation(last, Violation{Class: "crash(race-built worker)", Msg: "race-built worker process died while running this case: " + firstPanicLine(errText), Files: map[string]string{"stderr.txt": errText}})
						}
					}
				}()
			}
		}
	}
	wg.Wait()

	if p.Race || raceSampled {
		blocks := scanRaceLogs(runDir)
		agg.RaceBlocks = len(blocks)
		seen := map[string]string{}
		for _, b := range blocks {
			k := raceKey(b)
			if _, ok := seen[k]; !ok {
				seen[k] = b
			}
		}
		for k, b := range seen {
			agg.RaceDistinct = append(agg.RaceDistinct, k)
			agg.AddViolation(-1, Violation{Class: "race:" + k, Msg: "data race reported by the Go race detector", Files: map[string]string{"race.txt": b}})
		}
		sort.Strings(agg.RaceDistinct)
	}
	if p.Finalize != nil {
		p.Finalize(agg)
	}
	return finish(agg, start, replayRoot)
}

func firstPanicLine(s string) string {
	for _, l := range strings.Split(s, "\n") {
		if strings.HasPrefix(l, "panic:") || strings.HasPrefix(l, "fatal error:") {
			return l
		}
	}
	return ""
}

func tailFile(path string, n int) string {
	b, err := os.ReadFile(path)
	if err != nil {
		return ""
	}
	// keep the head (where the panic message is) rather than the tail
	if len(b) > n {
		b = b[:n]
	}
	return string(b)
}

func readJournal(path string, agg *Agg, mu *sync.Mutex) (last int, complete bool, hang string) {
	last = -1
	f, err := os.Open(path)
	if err != nil {
		return
	}
	defer f.Close()
	rd := bufio.NewReaderSize(f, 1<<20)
	open := -1
	for {
		line, err := rd.ReadString('\n')
		if len(line) > 0 && line[len(line)-1] == '\n' {
			line = line[:len(line)-1]
			switch {
			case strings.HasPrefix(line, "B "):
				open, _ = strconv.Atoi(line[2:])
				last = open
			case strings.HasPrefix(line, "E "):
				rest := line[2:]
				sp := strings.IndexByte(rest, ' ')
				idx, _ := strconv.Atoi(rest[:sp])
				var r Result
				if json.Unmarshal([]byte(rest[sp+1:]), &r) == nil {
					mu.Lock()
					agg.merge(idx, &r)
					mu.Unlock()
				}
				open = -1
			case strings.HasPrefix(line, "H "):
				rest := line[2:]
				sp := strings.IndexByte(rest, ' ')
				last, _ = strconv.Atoi(rest[:sp])
				hang = rest[sp+1:]
			case line == "DONE":
				complete = true
			}
		}
		if err != nil {
			break
		}
	}
	if open < 0 && !complete && hang == "" {
		// died between cases (should not happen); nothing to attribute
	}
	return
}

func (a *Agg) merge(idx int, r *Result) {
	a.CasesRun++
	a.Evals += r.Evals
	for _, s := range r.Sigs {
		a.Sigs[s] = true
	}
	for k, v := range r.Counters {
		a.Counters[k] += v
	}
	for k, vs := range r.Sets {
		m := a.Sets[k]
		if m == nil {
			m = map[string]bool{}
			a.Sets[k] = m
		}
		for _, v := range vs {
			m[v] = true
		}
	}
	for _, v := range r.Viol {
		a.Viol = append(a.Viol, caseViolation{idx, v})
	}
	for _, s := range r.Inconclusive {
		if len(a.Inconclusive) < 200 {
			a.Inconclusive = append(a.Inconclusive, fmt.Sprintf("case %d: %s", idx, s))
		}
	}
	if r.Sample != nil && len(a.Samples) < 4 {
		a.Samples = append(a.Samples, r.Sample)
	}
}

var reRaceLine = regexp.MustCompile(`^\s+(\S+)\(.*\)$|^\s+(\S+)\(\)$`)

func scanRaceLogs(dir string) []string {
	var blocks []string
	files, _ := filepath.Glob(filepath.Join(dir, "race.*"))
	for _, f := range files {
		b, err := os.ReadFile(f)
		if err != nil {
			continue
		}
		parts := strings.Split(string(b), "==================")
		for _, p := range parts {
			if strings.Contains(p, "WARNING: DATA RACE") {
				blocks = append(blocks, strings.TrimSpace(p))
			}
		}
	}
	return blocks
}

// raceKey de-duplicates race reports by the function names of the two access
// stacks (line numbers stripped).
func raceKey(block string) string {
	var fns []string
	for _, l := range strings.Split(block, "\n") {
		t := strings.TrimSpace(l)
		if strings.Contains(t, "virus-evolution/gofasta") && strings.HasSuffix(t, ")") && !strings.HasPrefix(t, "/") {
			if i := strings.Index(t, "("); i > 0 {
				fn := t[:i]
				fn = strings.TrimPrefix(fn, "github.com/virus-evolution/gofasta/")
				fns = append(fns, fn)
			}
		}
	}
	if len(fns) > 4 {
		fns = fns[:4]
	}
	return strings.Join(fns, "|")
}

func finish(agg *Agg, start time.Time, replayRoot string) int {
	p := agg.Prop
	known := loadKnown()
	// sort violations for determinism
	sort.SliceStable(agg.Viol, func(i, j int) bool { return agg.Viol[i].Idx < agg.Viol[j].Idx })
	knownHit := map[int]int{}
	var fresh []caseViolation
	for _, cv := range agg.Viol {
		matched := -1
		for i, k := range known {
			if k.Status == "known" && k.Property == p.ID && k.Class == cv.V.Class {
				matched = i
				break
			}
		}
		if matched >= 0 {
			knownHit[matched]++
		} else {
			fresh = append(fresh, cv)
		}
	}
	nontriv := len(agg.Sigs)
	wall := time.Since(start).Seconds()

	cov := map[string]interface{}{
		"evaluations":         agg.Evals,
		"distinct_nontrivial": nontriv,
		"rule":                p.Rule,
		"cases_run":           agg.CasesRun,
		"cases_planned":       p.Cases(agg.Tier),
		"worker_crashes":      agg.Crashes,
		"hangs":               agg.Hangs,
		"inconclusive":        len(agg.Inconclusive),
		"known_findings_hit":  len(knownHit),
	}
	if p.Exhaustive {
		cov["exhaustive"] = true
	}
	if len(agg.Samples) == 0 {
		agg.Samples = append(agg.Samples, "no sample recorded")
	}
	cov["samples"] = agg.Samples
	ckeys := make([]string, 0, len(agg.Counters))
	for k := range agg.Counters {
		ckeys = append(ckeys, k)
	}
	sort.Strings(ckeys)
	counters := map[string]int{}
	for _, k := range ckeys {
		counters[k] = agg.Counters[k]
	}
	cov["observed"] = counters
	sets := map[string]int{}
	for k, m := range agg.Sets {
		sets[k] = len(m)
	}
	cov["distinct_observed"] = sets
	if p.Race {
		cov["race_report_blocks"] = agg.RaceBlocks
		cov["race_reports_distinct"] = agg.RaceDistinct
	}
	if len(agg.Inconclusive) > 0 {
		lim := agg.Inconclusive
		if len(lim) > 10 {
			lim = lim[:10]
		}
		cov["inconclusive_notes"] = lim
	}
	ev := map[string]interface{}{
		"property_id": p.ID,
		"tier":        agg.Tier,
		"seed":        agg.Seed,
		"level":       p.Level,
		"coverage":    cov,
		"assumptions": p.Assumptions,
		"wall_s":      wall,
		"violations":  len(fresh),
	}
	os.MkdirAll(filepath.Join(OutDir(), "evidence"), 0755)
	b, _ := json.MarshalIndent(ev, "", " ")
	os.WriteFile(filepath.Join(OutDir(), "evidence", p.ID+".json"), append(b, '\n'), 0644)

	fmt.Printf("property=%s tier=%s seed=%d cases=%d/%d evaluations=%d distinct_nontrivial=%d crashes=%d hangs=%d inconclusive=%d wall=%.1fs\n",
		p.ID, agg.Tier, agg.Seed, agg.CasesRun, p.Cases(agg.Tier), agg.Evals, nontriv, agg.Crashes, agg.Hangs, len(agg.Inconclusive), wall)
	for _, k := range ckeys {
		fmt.Printf("  observed %s=%d\n", k, agg.Counters[k])
	}
	skeys := make([]string, 0, len(sets))
	for k := range sets {
		skeys = append(skeys, k)
	}
	sort.Strings(skeys)
	for _, k := range skeys {
		fmt.Printf("  distinct %s=%d\n", k, sets[k])
		if strings.HasPrefix(k, "refused_by_panic") {
			var ms []string
			for m := range agg.Sets[k] {
				ms = append(ms, m)
			}
			sort.Strings(ms)
			fmt.Printf("    %s\n", strings.Join(ms, " "))
		}
	}
	for i, s := range agg.Inconclusive {
		if i >= 10 {
			fmt.Printf("  ... %d more inconclusive notes\n", len(agg.Inconclusive)-10)
			break
		}
		fmt.Printf("INCONCLUSIVE: %s\n", s)
	}
	for i, k := range known {
		if c, ok := knownHit[i]; ok {
			fmt.Printf("KNOWN-FINDING: property=%s class=%s cases=%d %s\n", p.ID, k.Class, c, k.What)
		}
	}
	if len(fresh) > 0 {
		hist := map[string]int{}
		for _, cv := range fresh {
			hist[cv.V.Class]++
		}
		hk := make([]string, 0, len(hist))
		for k := range hist {
			hk = append(hk, k)
		}
		sort.Strings(hk)
		for _, k := range hk {
			fmt.Printf("  violation-class %s cases=%d\n", k, hist[k])
		}
		for i, cv := range fresh {
			if i >= 10 {
				break
			}
			dir := filepath.Join(replayRoot, fmt.Sprintf("%d-%d-%d", agg.Seed, cv.Idx, i))
			os.MkdirAll(dir, 0755)
			meta := map[string]interface{}{"property": p.ID, "seed": agg.Seed, "tier": agg.Tier, "index": cv.Idx, "class": cv.V.Class, "msg": cv.V.Msg, "argv": cv.V.Argv}
			mb, _ := json.MarshalIndent(meta, "", " ")
			os.WriteFile(filepath.Join(dir, "case.json"), mb, 0644)
			for name, content := range cv.V.Files {
				os.WriteFile(filepath.Join(dir, filepath.Base(name)), []byte(content), 0644)
			}
			msg := cv.V.Msg
			if len(msg) > 400 {
				msg = msg[:400] + "..."
			}
			fmt.Printf("  case %d class=%s: %s\n", cv.Idx, cv.V.Class, strings.ReplaceAll(msg, "\n", "\\n"))
			fmt.Printf("VIOLATION property=%s replay=%s\n", p.ID, dir)
		}
		return 1
	}
	if agg.CasesRun < p.Cases(agg.Tier) {
		fmt.Printf("INCONCLUSIVE: only %d of %d cases completed\n", agg.CasesRun, p.Cases(agg.Tier))
		return 2
	}
	if nontriv < p.MinNontriv || nontriv < 2 {
		fmt.Printf("INCONCLUSIVE: observed only %d distinct non-trivial cases (floor %d)\n", nontriv, p.MinNontriv)
		return 2
	}
	for _, s := range agg.Inconclusive {
		if strings.HasPrefix(s, "RUN:") {
			return 2
		}
	}
	return 0
}

// ReplayMain re-runs the case recorded in a replay directory.
func ReplayMain(dir string) int {
	b, err := os.ReadFile(filepath.Join(dir, "case.json"))
	if err != nil {
		fmt.Fprintln(os.Stderr, err)
		return 2
	}
	var meta struct {
		Property string `json:"property"`
		Seed     uint64 `json:"seed"`
		Tier     string `json:"tier"`
		Index    int    `json:"index"`
	}
	if err := json.Unmarshal(b, &meta); err != nil {
		fmt.Fprintln(os.Stderr, err)
		return 2
	}
	p := Get(meta.Property)
	if p == nil || meta.Index < 0 {
		fmt.Fprintln(os.Stderr, "replay: not a replayable case (run-level finding)")
		return 2
	}
	tmp := filepath.Join(BuildDir(), "tmp", fmt.Sprintf("replay-%d", os.Getpid()))
	os.MkdirAll(tmp, 0755)
	defer os.RemoveAll(tmp)
	ctx := &Ctx{Seed: meta.Seed, Tier: meta.Tier, Tmp: tmp, Bin: os.Getenv("VERIF_GOFASTA_BIN"), BinRace: os.Getenv("VERIF_GOFASTA_BIN_RACE"), Replay: true}
	if dn, err := os.OpenFile(os.DevNull, os.O_WRONLY, 0); err == nil {
		os.Stderr = dn
	}
	res := p.Run(ctx, meta.Index)
	if len(res.Viol) == 0 {
		fmt.Printf("replay: property=%s case=%d-%d held\n", meta.Property, meta.Seed, meta.Index)
		return 0
	}
	for _, v := range res.Viol {
		fmt.Printf("replay: property=%s case=%d-%d class=%s\n%s\n", meta.Property, meta.Seed, meta.Index, v.Class, v.Msg)
	}
	fmt.Printf("VIOLATION property=%s replay=%s\n", meta.Property, dir)
	return 1
}

// ---------------------------------------------------------------------------
// running the real binary

type BinResult struct {
	Exit     int
	Stdout   []byte
	Stderr   []byte
	TimedOut bool
	Dump     string
}

// RunBin runs the gofasta binary with a generous watchdog. A watchdog expiry
// sends SIGQUIT so that the goroutine dump can be analysed.
func RunBin(bin string, args []string, stdin []byte, env []string, dir string, watchdog time.Duration) BinResult {
	cmd := exec.Command(bin, args...)
	if dir != "" {
		cmd.Dir = dir
	}
	if stdin != nil {
		cmd.Stdin = bytes.NewReader(stdin)
	}
	var so, se bytes.Buffer
	cmd.Stdout = &so
	cmd.Stderr = &se
	cmd.Env = append(os.Environ(), env...)
	if err := cmd.Start(); err != nil {
		return BinResult{Exit: -1, Stderr: []byte(err.Error())}
	}
	done := make(chan error, 1)
	go func() { done <- cmd.Wait() }()
	var res BinResult
	select {
	case err := <-done:
		res.Exit = exitCode(err)
	case <-time.After(watchdog):
		res.TimedOut = true
		cmd.Process.Signal(sigQuit)
		select {
		case <-done:
		case <-time.After(10 * time.Second):
			cmd.Process.Kill()
			<-done
		}
		res.Exit = -2
		res.Dump = se.String()
	}
	res.Stdout = so.Bytes()
	res.Stderr = se.Bytes()
	return res
}

func exitCode(err error) int {
	if err == nil {
		return 0
	}
	if ee, ok := err.(*exec.ExitError); ok {
		return ee.ExitCode()
	}
	return -1
}

// Discard is an io.Writer that drops everything.
var Discard io.Writer = io.Discard
