package fw

import (
	"bytes"
	"os"
	"os/exec"
	"sync"
	"syscall"
	"time"
)

// RunBinSlowPipe is RunBin with the standard output connected to a one-page pipe that is
// drained slowly (1 KiB every 300 microseconds). A correct command is only slowed down; a
// command that hands its last bytes to the destination after it has signalled completion
// (a deferred flush racing the process exit) loses them, because that last write blocks on
// the full pipe while the process exits.
func RunBinSlowPipe(bin string, args []string, stdin []byte, env []string, dir string, watchdog time.Duration) BinResult {
	pr, pw, err := os.Pipe()
	if err != nil {
		return RunBin(bin, args, stdin, env, dir, watchdog)
	}
	const fSetPipeSz = 1031
	syscall.Syscall(syscall.SYS_FCNTL, pw.Fd(), fSetPipeSz, 4096)
	cmd := exec.Command(bin, args...)
	if dir != "" {
		cmd.Dir = dir
	}
	if stdin != nil {
		cmd.Stdin = bytes.NewReader(stdin)
	}
	var se bytes.Buffer
	cmd.Stdout = pw
	cmd.Stderr = &se
	cmd.Env = append(os.Environ(), env...)
	if err := cmd.Start(); err != nil {
		pr.Close()
		pw.Close()
		return BinResult{Exit: -1, Stderr: []byte(err.Error())}
	}
	pw.Close()
	var so bytes.Buffer
	var wg sync.WaitGroup
	wg.Add(1)
	go func() {
		defer wg.Done()
		buf := make([]byte, 1024)
		for {
			n, err := pr.Read(buf)
			so.Write(buf[:n])
			if err != nil {
				return
			}
			time.Sleep(300 * time.Microsecond)
		}
	}()
	done := make(chan error, 1)
	go func() { done <- cmd.Wait() }()
	var res BinResult
	select {
	case err := <-done:
		res.Exit = exitCode(err)
	case <-time.After(watchdog):
		res.TimedOut = true
		cmd.Process.Signal(sigQuit)
		select {
		case <-done:
		case <-time.After(10 * time.Second):
			cmd.Process.Kill()
			<-done
		}
		res.Exit = -2
		res.Dump = se.String()
	}
	wg.Wait()
	pr.Close()
	res.Stdout = so.Bytes()
	res.Stderr = se.Bytes()
	return res
}

// RunBinStdinFile is RunBin with the standard input redirected from a regular file
// (`cmd < file`) instead of fed through a pipe.
func RunBinStdinFile(bin string, args []string, stdinPath string, env []string, dir string, watchdog time.Duration) BinResult {
	in, err := os.Open(stdinPath)
	if err != nil {
		return BinResult{Exit: -1, Stderr: []byte(err.Error())}
	}
	defer in.Close()
	cmd := exec.Command(bin, args...)
	if dir != "" {
		cmd.Dir = dir
	}
	cmd.Stdin = in
	var so, se bytes.Buffer
	cmd.Stdout = &so
	cmd.Stderr = &se
	cmd.Env = append(os.Environ(), env...)
	if err := cmd.Start(); err != nil {
		return BinResult{Exit: -1, Stderr: []byte(err.Error())}
	}
	done := make(chan error, 1)
	go func() { done <- cmd.Wait() }()
	var res BinResult
	select {
	case err := <-done:
		res.Exit = exitCode(err)
	case <-time.After(watchdog):
		res.TimedOut = true
		cmd.Process.Signal(sigQuit)
		select {
		case <-done:
		case <-time.After(10 * time.Second):
			cmd.Process.Kill()
			<-done
		}
		res.Exit = -2
		res.Dump = se.String()
	}
	res.Stdout = so.Bytes()
	res.Stderr = se.Bytes()
	return res
}
