package fw

// Rng is a small deterministic PRNG (splitmix64). Every case list in the
// harness is a pure function of (VERIF_SEED, property id, case index).
type Rng struct{ s uint64 }

func Mix(x uint64) uint64 {
	x += 0x9e3779b97f4a7c15
	x = (x ^ (x >> 30)) * 0xbf58476d1ce4e5b9
	x = (x ^ (x >> 27)) * 0x94d049bb133111eb
	return x ^ (x >> 31)
}

func HashString(s string) uint64 {
	var h uint64 = 1469598103934665603
	for i := 0; i < len(s); i++ {
		h ^= uint64(s[i])
		h *= 1099511628211
	}
	return h
}

// NewRng derives a stream from a seed, a label and an index.
func NewRng(seed uint64, label string, idx int) *Rng {
	return &Rng{s: Mix(seed ^ Mix(HashString(label)^Mix(uint64(idx)+0x1234567)))}
}

func (r *Rng) U64() uint64 {
	r.s += 0x9e3779b97f4a7c15
	z := r.s
	z = (z ^ (z >> 30)) * 0xbf58476d1ce4e5b9
	z = (z ^ (z >> 27)) * 0x94d049bb133111eb
	return z ^ (z >> 31)
}

// Intn returns a value in [0,n). n<=0 returns 0.
func (r *Rng) Intn(n int) int {
	if n <= 0 {
		return 0
	}
	return int(r.U64() % uint64(n))
}

// Range returns a value in [lo,hi] inclusive.
func (r *Rng) Range(lo, hi int) int {
	if hi <= lo {
		return lo
	}
	return lo + r.Intn(hi-lo+1)
}

func (r *Rng) Float() float64 { return float64(r.U64()>>11) / float64(1<<53) }

// Chance returns true with probability p.
func (r *Rng) Chance(p float64) bool { return r.Float() < p }

func (r *Rng) Pick(s string) byte { return s[r.Intn(len(s))] }

func (r *Rng) PickStr(s []string) string { return s[r.Intn(len(s))] }

func (r *Rng) PickInt(s []int) int { return s[r.Intn(len(s))] }

func (r *Rng) Perm(n int) []int {
	p := make([]int, n)
	for i := range p {
		p[i] = i
	}
	for i := n - 1; i > 0; i-- {
		j := r.Intn(i + 1)
		p[i], p[j] = p[j], p[i]
	}
	return p
}
