package fw

import "syscall"

var sigQuit = syscall.SIGQUIT
