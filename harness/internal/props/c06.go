package props

import (
	"fmt"
	"math"
	"sort"
	"strconv"
	"strings"

	"verifharness/internal/fw"
	"verifharness/internal/gen"
	"verifharness/internal/model"
	"verifharness/internal/run"
)

func init() {
	fw.Register(&fw.Property{
		ID:         "C06",
		Level:      "exploration",
		Jitter:     true,
		RaceSample: true,
		Rule: "tie-rich query (1-6) and target (1-40) sets of width 8-300: targets derived from queries by substitutions drawn from a small shared pool, duplicates, the same column masked by N in one target and by a compatible 2-fold code in another (equal distance, different completeness), equal completeness (file-order ties), all-N / all-gap / heavily ambiguous targets at first, middle and last file position, disjoint-coverage groups (queries resolved in one half of the columns, several targets resolved only in the other half with different completeness, mixed into the list or alone); measures raw/snp/tn93; n in {plain,1,2,3,|T|,|T|+3}; d in {none, an occurring distance, between two, 0, the top of the measure's range and beyond}; table on/off; threads {0,1,2,16}; without -d every plain run is repeated as -n 1 and every -n 1 run as plain and the two must name the same target per query; " +
			"distinct non-trivial = distinct (measure, n kind, d kind, tie pattern, undefined-target position, capacity-boundary replacement) tuples",
		Assumptions: []string{"without -d, whether an undefined-distance target may fill spare capacity after all defined ones, and what is printed for it, is unspecified: only 'never displaces a defined one' is judged; with -d an undefined distance is not within D and must not be returned",
			"tn93 order is checked with tolerance 1e-9*max(1,|d|); tie-break rules for tn93 only between targets with identical count tuples"},
		MinNontriv: 60,
		Cases: func(tier string) int {
			if tier == "thorough" {
				return 400000
			}
			return 3000
		},
		Run: runC06,
	})
}

type c06Target struct {
	rec  gen.FastaRec
	idx  int
	comp int
}

// compatible 2-fold codes per base
var twoFold = map[byte]string{'A': "RMW", 'C': "YMS", 'G': "RKS", 'T': "YKW"}

func c06Inputs(r *fw.Rng, measure string, wide bool) ([]gen.FastaRec, []c06Target, string) {
	W := r.Range(8, 60)
	if r.Chance(0.3) {
		W = r.Range(61, 300)
	}
	if wide {
		// genome-scale rows: differences spread over many kilobases (several buffer / block lengths)
		W = r.Range(1030, 9000)
		if r.Chance(0.25) {
			W = r.Range(16500, 33000)
		}
	}
	base := gen.Genome(r, W)
	nq, nt := r.Range(1, 6), r.Range(1, 40)
	if r.Chance(0.2) {
		nt = r.Range(1, 4)
	}
	// shared substitution pool
	type sub struct {
		pos int
		b   byte
	}
	var pool []sub
	npool := r.Range(2, 8)
	if wide {
		npool = r.Range(6, 24)
	}
	for i := 0; i < npool; i++ {
		p := r.Intn(W)
		pool = append(pool, sub{p, gen.OtherBase(r, base[p])})
	}
	var maskPos []int
	for i := 0; i < r.Range(1, 5); i++ {
		maskPos = append(maskPos, r.Intn(W))
	}
	apply := func(s string, k int) string {
		b := []byte(s)
		for i := 0; i < k; i++ {
			su := pool[r.Intn(len(pool))]
			b[su.pos] = su.b
		}
		return string(b)
	}
	var qs []gen.FastaRec
	for i := 0; i < nq; i++ {
		s := apply(base, r.Intn(3))
		if r.Chance(0.2) {
			b := []byte(s)
			b[r.Intn(W)] = 'N'
			s = string(b)
		}
		qs = append(qs, gen.FastaRec{ID: fmt.Sprintf("q%d", i), Desc: fmt.Sprintf("q%d", i), Seq: s})
	}
	undefPos := "none"
	var ts []c06Target
	undefAt := -1
	if r.Chance(0.35) {
		undefAt = []int{0, nt / 2, nt - 1}[r.Intn(3)]
		undefPos = []string{"first", "middle", "last"}[0]
		switch {
		case undefAt == 0:
			undefPos = "first"
		case undefAt == nt-1:
			undefPos = "last"
		default:
			undefPos = "middle"
		}
	}
	for i := 0; i < nt; i++ {
		var s string
		switch {
		case i == undefAt:
			switch r.Intn(3) {
			case 0:
				s = strings.Repeat("N", W)
			case 1:
				s = strings.Repeat("-", W)
			default:
				s = gen.RandSeq(r, W, gen.SeqProfile{PAmbig: 0.5, PGap: 0.3, PQ: 0.2})
				b := []byte(s)
				for k := range b {
					if model.IsACGT(b[k]) {
						b[k] = 'N'
					}
				}
				s = string(b)
			}
		case i > 0 && r.Chance(0.15):
			s = ts[r.Intn(i)].rec.Seq // duplicate
		default:
			src := base
			if r.Chance(0.6) {
				src = qs[r.Intn(nq)].Seq
			}
			s = apply(src, r.Intn(4))
			b := []byte(s)
			if r.Chance(0.5) {
				p := maskPos[r.Intn(len(maskPos))]
				if model.IsACGT(b[p]) {
					if r.Chance(0.5) {
						b[p] = 'N'
					} else {
						tf := twoFold[model.Upper(b[p])]
						b[p] = tf[r.Intn(len(tf))]
					}
				}
			}
			if r.Chance(0.08) {
				// heavily ambiguous
				for k := range b {
					if r.Chance(0.7) {
						b[k] = 'N'
					}
				}
			}
			if r.Chance(0.1) {
				for k := range b {
					if b[k] >= 'A' && b[k] <= 'Z' && r.Chance(0.3) {
						b[k] += 32
					}
				}
			}
			s = string(b)
		}
		ts = append(ts, c06Target{rec: gen.FastaRec{ID: fmt.Sprintf("t%d", i), Desc: fmt.Sprintf("t%d", i), Seq: s}, idx: i, comp: model.Completeness(s)})
	}
	if W >= 8 && r.Chance(0.12) {
		// disjoint coverage: queries resolved only in the first half of the columns (the rest N) and a
		// few targets resolved only in the second half, with different numbers of masked columns: their
		// distance to those queries is undefined under raw and tn93 although neither side is empty, and
		// their completeness differs. Mixed into the target list, or the only targets there are.
		h := W / 2
		masked := false
		for i := range qs {
			if r.Chance(0.7) || (i == len(qs)-1 && !masked) {
				qs[i].Seq = qs[i].Seq[:h] + strings.Repeat("N", W-h)
				masked = true
			}
		}
		var us []c06Target
		for k := r.Range(2, 5); k > 0; k-- {
			b := []byte(strings.Repeat("N", h) + base[h:])
			for m := r.Intn(W - h); m > 0; m-- {
				b[h+r.Intn(W-h)] = 'N'
			}
			us = append(us, c06Target{rec: gen.FastaRec{ID: fmt.Sprintf("u%d", k), Desc: fmt.Sprintf("u%d", k), Seq: string(b)}})
		}
		if r.Chance(0.4) {
			ts = us
		} else {
			for _, u := range us {
				at := r.Intn(len(ts) + 1)
				ts = append(ts[:at], append([]c06Target{u}, ts[at:]...)...)
			}
		}
		for j := range ts {
			ts[j].idx, ts[j].comp = j, model.Completeness(ts[j].rec.Seq)
		}
		undefPos = "several"
	}
	if r.Chance(0.2) {
		// one target carries the name of a query: names never enter the order
		k, j := r.Intn(len(qs)), r.Intn(len(ts))
		ts[j].rec.ID, ts[j].rec.Desc = qs[k].ID, qs[k].Desc
	}
	gen.Describe(r, qs)
	for j := range ts {
		one := []gen.FastaRec{ts[j].rec}
		gen.Describe(r, one)
		ts[j].rec = one[0]
	}
	return qs, ts, undefPos
}

type c06Dist struct {
	def   bool
	num   int // snp: n ; raw: n
	den   int // raw: n+same ; snp: 1
	f     float64
	tuple string
}

func c06Distance(measure, q, t string) c06Dist {
	c := model.Counts(q, t)
	switch measure {
	case "snp":
		return c06Dist{def: true, num: c.N, den: 1, f: float64(c.N)}
	case "raw":
		if c.N+c.Same == 0 {
			return c06Dist{}
		}
		return c06Dist{def: true, num: c.N, den: c.N + c.Same, f: float64(c.N) / float64(c.N+c.Same)}
	}
	// tn93 without the safety margin: defined iff finite
	var cnt [4]int
	for i := 0; i < len(t); i++ {
		switch model.Upper(t[i]) {
		case 'A':
			cnt[0]++
		case 'C':
			cnt[1]++
		case 'G':
			cnt[2]++
		case 'T':
			cnt[3]++
		}
	}
	d, ok := model.TN93(q, t)
	if !ok || math.IsNaN(d) || math.IsInf(d, 0) {
		// either undefined or too close to a singularity to be judged
		dd := c06Dist{}
		if cnt[0] > 0 && cnt[1] > 0 && cnt[2] > 0 && cnt[3] > 0 && c.Res > 0 {
			dd.tuple = "near-singular"
		}
		return dd
	}
	return c06Dist{def: true, f: d, tuple: fmt.Sprintf("%d|%d|%d|%d|%v", c.P1, c.P2, c.Tv, c.Res, cnt)}
}

// cmpExact orders two defined distances exactly (snp/raw): -1,0,1.
func cmpExact(a, b c06Dist) int {
	l, r := a.num*b.den, b.num*a.den
	switch {
	case l < r:
		return -1
	case l > r:
		return 1
	}
	return 0
}

func runC06(c *fw.Ctx, idx int) fw.Result {
	var res fw.Result
	r := fw.NewRng(c.Seed, "C06", idx)
	measure := []string{"raw", "snp", "tn93"}[r.Intn(3)]
	// genome-scale rows in one case out of sixteen, mostly under the measure and mode whose
	// distance loop a maintainer would be tempted to cut short (snp, single nearest neighbour)
	wide := r.Chance(0.06)
	if wide && r.Chance(0.6) {
		measure = "snp"
	}
	qs, ts, undefPos := c06Inputs(r, measure, wide)
	nt := len(ts)
	W := len(qs[0].Seq)
	// all distances
	dist := make([][]c06Dist, len(qs))
	var occurring []float64
	for i, q := range qs {
		dist[i] = make([]c06Dist, nt)
		for j, t := range ts {
			dist[i][j] = c06Distance(measure, q.Seq, t.rec.Seq)
			if dist[i][j].def {
				occurring = append(occurring, dist[i][j].f)
			}
			if measure == "tn93" && dist[i][j].tuple == "near-singular" {
				res.Count("cases_skipped_near_singular_tn93", 1)
				res.Evals++
				return res
			}
		}
	}
	sort.Float64s(occurring)
	nKind := []string{"plain", "1", "2", "3", "T", "T+3"}[r.Intn(6)]
	if wide && r.Chance(0.5) {
		nKind = "plain"
	}
	n := 0
	switch nKind {
	case "1":
		n = 1
	case "2":
		n = 2
	case "3":
		n = 3
	case "T":
		n = nt
	case "T+3":
		n = nt + 3
	}
	dKind := "none"
	D := -1.0
	if r.Chance(0.45) && len(occurring) > 0 && !(wide && nKind == "plain") {
		switch r.Intn(4) {
		case 3:
			// a bound at or above anything the measure can give: every defined distance is within it,
			// an undefined one still is not
			dKind = "top"
			D = []float64{1, 1, 2.5, 1e9}[r.Intn(4)]
			if measure == "snp" {
				D = float64(W + r.Intn(3))
			}
		case 0:
			dKind = "occurring"
			D = occurring[r.Intn(len(occurring))]
		case 1:
			dKind = "between"
			a := occurring[r.Intn(len(occurring))]
			b := occurring[r.Intn(len(occurring))]
			D = (a + b) / 2
			if measure == "snp" {
				D = math.Floor(D) + 0.5
			}
		default:
			dKind = "zero"
			D = 0
		}
	}
	table := r.Chance(0.5)
	threads := []int{0, 1, 2, 16}[r.Intn(4)]
	var tsRecs []gen.FastaRec
	for _, t := range ts {
		tsRecs = append(tsRecs, t.rec)
	}
	plain := n == 0 && D == -1.0
	if (plain || !table) && len(qs) >= 2 && r.Chance(0.25) {
		// two query records with one ID (a re-sequenced sample): each is a query of its own and gets
		// its own row, in file order (the row-per-query outputs are read by position here)
		k, j := r.Intn(len(qs)), r.Intn(len(qs))
		if k != j {
			qs = append([]gen.FastaRec{}, qs...)
			qs[j].ID, qs[j].Desc = qs[k].ID, qs[k].Desc
			res.Count("cases_with_repeated_query_id", 1)
		}
	}
	qText := noFinalNL(r, gen.RenderFasta(qs, gen.PickLineWidth(r, W)))
	tText := noFinalNL(r, gen.RenderFasta(tsRecs, gen.PickLineWidth(r, W)))
	var out string
	var err error
	argv := []string{"closest", "-m", measure, "-n", fmt.Sprint(n), "-d", fmt.Sprint(D), fmt.Sprintf("--table=%v", table), "-t", fmt.Sprint(threads)}
	if plain {
		out, err = run.Closest(qText, tText, measure, threads)
		argv = []string{"closest", "-m", measure, "-t", fmt.Sprint(threads)}
	} else {
		out, err = run.ClosestN(n, D, qText, tText, measure, table, threads)
	}
	res.Evals++
	files := map[string]string{"query.fasta": qText, "target.fasta": tText, "observed.csv": out}
	if err != nil {
		res.Fail("error-on-valid-input", "closest returned an error on valid input: "+err.Error(), files, argv)
		return res
	}
	if idx%20 == 5 {
		binSample(c, &res, idx, "closest", map[string]string{"query.fasta": qText, "target.fasta": tText}, func(p func(string) string) []string {
			a := []string{"closest", "--query", p("query.fasta"), "--target", p("target.fasta"), "-m", spellMeasure(measure, idx)}
			if threads != 0 {
				a = append(a, "-t", fmt.Sprint(threads))
			}
			if n > 0 {
				a = append(a, "-n", fmt.Sprint(n))
			}
			if D != -1.0 {
				a = append(a, "-d", strconv.FormatFloat(D, 'g', -1, 64))
			}
			if table && !plain {
				a = append(a, "--table")
			}
			return a
		}, nil, map[bool]string{true: "", false: "-o"}[fw.Mix(uint64(idx)+99)%3 == 0], out)
	}
	lines := strings.Split(strings.TrimSuffix(out, "\n"), "\n")
	// parse observed per query: names and printed distances
	obsNames := make([][]string, len(qs))
	obsDist := make([][]string, len(qs))
	obsSNPs := make([]string, len(qs))
	qIndex := map[string]int{}
	for i, q := range qs {
		qIndex[q.ID] = i
	}
	bad := func(msg string) fw.Result {
		res.Fail("output-format", msg, files, argv)
		return res
	}
	switch {
	case plain:
		if lines[0] != "query,closest,distance,SNPs" || len(lines) != len(qs)+1 {
			return bad("plain closest output must have a header and one row per query")
		}
		for i, l := range lines[1:] {
			f := strings.Split(l, ",")
			if len(f) != 4 || f[0] != qs[i].ID {
				return bad(fmt.Sprintf("row %d is %q: rows must follow query-file order", i, l))
			}
			obsNames[i] = []string{f[1]}
			obsDist[i] = []string{f[2]}
			obsSNPs[i] = f[3]
		}
	case table:
		if lines[0] != "query,target,distance" {
			return bad("bad table header")
		}
		last := -1
		for _, l := range lines[1:] {
			f := strings.Split(l, ",")
			qi, ok := qIndex[f[0]]
			if len(f) != 3 || !ok {
				return bad("bad table row " + l)
			}
			if qi < last {
				return bad("table rows do not follow query-file order")
			}
			last = qi
			obsNames[qi] = append(obsNames[qi], f[1])
			obsDist[qi] = append(obsDist[qi], f[2])
		}
	default:
		if lines[0] != "query,closest" || len(lines) != len(qs)+1 {
			return bad("closest -n output must have a header and one row per query")
		}
		for i, l := range lines[1:] {
			f := strings.SplitN(l, ",", 2)
			if len(f) != 2 || f[0] != qs[i].ID {
				return bad(fmt.Sprintf("row %d is %q: rows must follow query-file order", i, l))
			}
			if f[1] != "" {
				obsNames[i] = strings.Split(f[1], ";")
			}
		}
	}
	tIndex := map[string]int{}
	for j, t := range ts {
		tIndex[t.rec.ID] = j
	}
	tiePat := map[string]bool{}
	boundary := false
	K := n
	if plain {
		K = 1
	}
	if K == 0 {
		K = math.MaxInt32
	}
	for qi := range qs {
		ds := dist[qi]
		// order of the defined targets
		var defd []int
		for j := range ts {
			if ds[j].def {
				defd = append(defd, j)
			}
		}
		eps := func(x float64) float64 { return 1e-9 * math.Max(1, math.Abs(x)) }
		// observed, restricted to known names
		var O []int
		seen := map[int]bool{}
		okRow := true
		for _, nm := range obsNames[qi] {
			j, ok := tIndex[nm]
			if !ok || seen[j] {
				res.Fail("bogus-target", fmt.Sprintf("query %s: returned target %q is unknown or repeated", qs[qi].ID, nm), files, argv)
				okRow = false
				break
			}
			seen[j] = true
			O = append(O, j)
		}
		if !okRow {
			continue
		}
		if len(O) > K {
			res.Fail("too-many", fmt.Sprintf("query %s: %d targets returned, capacity %d", qs[qi].ID, len(O), K), files, argv)
			continue
		}
		var Odef []int
		for _, j := range O {
			if ds[j].def {
				Odef = append(Odef, j)
			}
		}
		res.Count("query_evaluations", 1)
		if D != -1.0 && len(O) != len(Odef) {
			// an undefined distance is not "within distance D"
			res.Fail("undefined-within-max-dist", fmt.Sprintf("query %s: -d %v given, but a target whose distance to the query is undefined is returned: %v", qs[qi].ID, D, names(ts, O)), files, argv)
			continue
		}
		if len(O) != len(Odef) {
			res.Count("undefined_targets_returned_in_spare_capacity_or_alone", 1)
		}
		if measure != "tn93" {
			sort.SliceStable(defd, func(a, b int) bool {
				x, y := defd[a], defd[b]
				if c := cmpExact(ds[x], ds[y]); c != 0 {
					return c < 0
				}
				if ts[x].comp != ts[y].comp {
					return ts[x].comp > ts[y].comp
				}
				return x < y
			})
			var E []int
			for _, j := range defd {
				if D != -1.0 && ds[j].f > D {
					continue
				}
				E = append(E, j)
			}
			if len(E) > K {
				boundary = true
				E = E[:K]
			}
			// tie patterns among the expected prefix and its successor
			for a := 0; a+1 < len(E); a++ {
				if cmpExact(ds[E[a]], ds[E[a+1]]) == 0 {
					if ts[E[a]].comp != ts[E[a+1]].comp {
						tiePat["comp"] = true
					} else {
						tiePat["file"] = true
					}
				}
			}
			same := len(E) == len(Odef)
			for a := 0; same && a < len(E); a++ {
				same = E[a] == Odef[a]
			}
			if !same {
				cls := "order-" + measure
				if len(O) != len(Odef) || undefinedBefore(O, ds) {
					cls = "undefined-displaces-defined"
				}
				res.Fail(cls, fmt.Sprintf("query %s: returned (defined) targets %v, expected the first %d of the total order: %v", qs[qi].ID, names(ts, Odef), len(E), names(ts, E)), files, argv)
				continue
			}
		} else {
			// tolerance-aware checks
			failed := false
			for a := 0; a+1 < len(Odef) && !failed; a++ {
				x, y := Odef[a], Odef[a+1]
				if ds[x].f > ds[y].f+eps(ds[y].f) {
					res.Fail("order-tn93", fmt.Sprintf("query %s: %s (%.12f) listed before %s (%.12f)", qs[qi].ID, ts[x].rec.ID, ds[x].f, ts[y].rec.ID, ds[y].f), files, argv)
					failed = true
				} else if ds[x].tuple == ds[y].tuple {
					tiePat["tuple"] = true
					if ts[x].comp < ts[y].comp || (ts[x].comp == ts[y].comp && x > y) {
						res.Fail("order-tn93-tiebreak", fmt.Sprintf("query %s: tie between %s and %s broken against completeness/file order", qs[qi].ID, ts[x].rec.ID, ts[y].rec.ID), files, argv)
						failed = true
					}
				}
			}
			for _, j := range Odef {
				if D != -1.0 && ds[j].f > D+eps(D) && !failed {
					res.Fail("beyond-max-dist", fmt.Sprintf("query %s: %s at %.12f returned although -d %.12f", qs[qi].ID, ts[j].rec.ID, ds[j].f, D), files, argv)
					failed = true
				}
			}
			inO := map[int]bool{}
			for _, j := range Odef {
				inO[j] = true
			}
			for _, x := range defd {
				if inO[x] || failed {
					continue
				}
				within := D == -1.0 || ds[x].f < D-eps(D)
				if !within {
					continue
				}
				if len(O) < K {
					res.Fail("omitted-tn93", fmt.Sprintf("query %s: %s (%.12f) omitted although capacity is spare", qs[qi].ID, ts[x].rec.ID, ds[x].f), files, argv)
					failed = true
					break
				}
				if len(Odef) < len(O) {
					res.Fail("undefined-displaces-defined", fmt.Sprintf("query %s: %s (defined distance %.12f) omitted while an undefined-distance target is returned", qs[qi].ID, ts[x].rec.ID, ds[x].f), files, argv)
					failed = true
					break
				}
				boundary = true
				last := Odef[len(Odef)-1]
				if ds[x].f < ds[last].f-eps(ds[last].f) {
					res.Fail("omitted-tn93", fmt.Sprintf("query %s: %s (%.12f) omitted but %s (%.12f) returned", qs[qi].ID, ts[x].rec.ID, ds[x].f, ts[last].rec.ID, ds[last].f), files, argv)
					failed = true
				} else if ds[x].tuple == ds[last].tuple && (ts[x].comp > ts[last].comp || (ts[x].comp == ts[last].comp && x < last)) {
					res.Fail("order-tn93-tiebreak", fmt.Sprintf("query %s: %s omitted in favour of %s against the tie-break order", qs[qi].ID, ts[x].rec.ID, ts[last].rec.ID), files, argv)
					failed = true
				}
			}
			if failed {
				continue
			}
		}
		// printed distances / SNP lists are those of the returned pairs
		for a, j := range O {
			if a < len(obsDist[qi]) && ds[j].def {
				msg, skipped := checkPairDistance(measure, qs[qi].Seq, ts[j].rec.Seq, obsDist[qi][a])
				if !skipped && msg != "" {
					res.Fail("listed-distance", fmt.Sprintf("query %s target %s: %s", qs[qi].ID, ts[j].rec.ID, msg), files, argv)
				}
				res.Count("listed_distances_checked", 1)
			}
		}
		if plain && len(O) == 1 {
			var sn []string
			q, t := qs[qi].Seq, ts[O[0]].rec.Seq
			for p := 0; p < len(q); p++ {
				if model.Disjoint(q[p], t[p], false) {
					sn = append(sn, strconv.Itoa(p+1)+string(model.Upper(q[p]))+string(model.Upper(t[p])))
				}
			}
			if strings.Join(sn, ";") != obsSNPs[qi] {
				res.Fail("listed-snps", fmt.Sprintf("query %s: SNP list %q is not that of the returned pair (%q)", qs[qi].ID, obsSNPs[qi], strings.Join(sn, ";")), files, argv)
			}
		}
	}
	// plain closest equals -n 1: the same target for every query, also where every distance is undefined
	if D == -1.0 && (plain || n == 1) {
		var out2 string
		var err2 error
		argv2 := []string{"closest", "-m", measure, "-n", "1", "-t", fmt.Sprint(threads)}
		if plain {
			out2, err2 = run.ClosestN(1, -1.0, qText, tText, measure, false, threads)
		} else {
			out2, err2 = run.Closest(qText, tText, measure, threads)
			argv2 = []string{"closest", "-m", measure, "-t", fmt.Sprint(threads)}
		}
		res.Evals++
		f2 := map[string]string{"query.fasta": qText, "target.fasta": tText, "observed.csv": out, "observed_other_form.csv": out2}
		l2 := strings.Split(strings.TrimSuffix(out2, "\n"), "\n")
		if err2 != nil || len(l2) != len(qs)+1 {
			res.Fail("error-on-valid-input", fmt.Sprintf("the counterpart run (plain closest / -n 1) failed or wrote %d lines for %d queries: %v", len(l2), len(qs), err2), f2, argv2)
		} else {
			for i := range qs {
				f := strings.Split(l2[i+1], ",")
				other := ""
				if len(f) >= 2 {
					other = f[1]
				}
				mine := strings.Join(obsNames[i], ";")
				res.Count("plain_vs_n1_rows_compared", 1)
				allUndef := true
				for j := range ts {
					allUndef = allUndef && !dist[i][j].def
				}
				if allUndef {
					res.Count("plain_vs_n1_rows_with_every_distance_undefined", 1)
				}
				if mine != other {
					res.Fail("plain-differs-from-n1", fmt.Sprintf("query %s (row %d): plain closest and closest -n 1 name different targets (%q and %q, in the order the two runs were made)", qs[i].ID, i+1, mine, other), f2, argv2)
					break
				}
			}
		}
	}
	tp := ""
	for _, k := range []string{"comp", "file", "tuple"} {
		if tiePat[k] {
			tp += k
		}
	}
	res.Sig(fmt.Sprintf("%s|%s|%s|%s|%s|%v", measure, nKind, dKind, tp, undefPos, boundary))
	if tiePat["comp"] {
		res.Count("cases_with_completeness_tie", 1)
	}
	if tiePat["file"] {
		res.Count("cases_with_file_order_tie", 1)
	}
	if undefPos != "none" {
		res.Count("cases_with_undefined_target_"+undefPos, 1)
	}
	if boundary {
		res.Count("cases_with_capacity_boundary", 1)
	}
	if idx < 3 {
		res.Sample = map[string]interface{}{"query": clipStr(qText, 500), "target": clipStr(tText, 800), "argv": argv, "observed": clipStr(out, 500)}
	}
	return res
}

func undefinedBefore(O []int, ds []c06Dist) bool {
	sawUndef := false
	for _, j := range O {
		if !ds[j].def {
			sawUndef = true
		} else if sawUndef {
			return true
		}
	}
	return false
}

func names(ts []c06Target, js []int) []string {
	var o []string
	for _, j := range js {
		o = append(o, ts[j].rec.ID)
	}
	return o
}
