package props

import (
	"fmt"
	"strings"

	"verifharness/internal/fw"
	"verifharness/internal/gen"
	"verifharness/internal/model"
	"verifharness/internal/run"
)

func init() {
	fw.Register(&fw.Property{
		ID:         "C03",
		Level:      "exploration",
		Jitter:     true,
		RaceSample: true,
		Rule: "(a) exhaustive symbol-pair tables: for each gap mode and four case layouts an alignment whose columns enumerate all 17x17 (reference symbol, query symbol) pairs at three positions each; (b) random alignments (width 1-2000, 1-40 records, IUPAC/gap-biased symbols, random line widths and case); " +
			"distinct non-trivial = distinct (gap mode, reference symbol, query symbol, case layout) cells observed plus distinct (width class, record count) shapes of random alignments that contained at least one SNP and one ambiguous-compatible column",
		Assumptions: []string{"the IUPAC base-set table in harness/internal/model/iupac.go is correct", "the symbol-pair table is exhaustive; alignment shapes are sampled"},
		Exhaustive:  false,
		MinNontriv:  2312,
		Cases: func(tier string) int {
			if tier == "thorough" {
				return 8 + 200000
			}
			return 8 + 1500
		},
		Run: runC03,
	})
}

func caseLayout(s string, layout int, r *fw.Rng) string {
	switch layout {
	case 0:
		return strings.ToUpper(s)
	case 1:
		return strings.ToLower(s)
	case 2:
		b := []byte(strings.ToUpper(s))
		for i := range b {
			if i%2 == 0 && b[i] >= 'A' && b[i] <= 'Z' {
				b[i] += 32
			}
		}
		return string(b)
	}
	b := []byte(strings.ToUpper(s))
	for i := range b {
		if r.Chance(0.5) && b[i] >= 'A' && b[i] <= 'Z' {
			b[i] += 32
		}
	}
	return string(b)
}

// expectedSNPs is the model row for one query.
func expectedSNPs(ref, q string, hard bool) []string {
	var out []string
	for i := 0; i < len(ref); i++ {
		if model.Disjoint(ref[i], q[i], hard) {
			out = append(out, fmt.Sprintf("%c%d%c", model.Upper(ref[i]), i+1, model.Upper(q[i])))
		}
	}
	return out
}

func runC03(c *fw.Ctx, idx int) fw.Result {
	var res fw.Result
	r := fw.NewRng(c.Seed, "C03", idx)
	var ref string
	var recs []gen.FastaRec
	hard := false
	exhaustive := idx < 8
	if exhaustive {
		hard = idx/4 == 1
		layout := idx % 4
		A := model.Alphabet17
		var rb, qb strings.Builder
		for rep := 0; rep < 3; rep++ {
			for i := 0; i < len(A); i++ {
				for j := 0; j < len(A); j++ {
					rb.WriteByte(A[i])
					qb.WriteByte(A[j])
				}
			}
		}
		// layouts: 0 upper/upper 1 lower/upper 2 upper/lower 3 mixed/mixed
		switch layout {
		case 0:
			ref, recs = rb.String(), []gen.FastaRec{{ID: "q", Desc: "q", Seq: qb.String()}}
		case 1:
			ref, recs = strings.ToLower(rb.String()), []gen.FastaRec{{ID: "q", Desc: "q", Seq: qb.String()}}
		case 2:
			ref, recs = rb.String(), []gen.FastaRec{{ID: "q", Desc: "q", Seq: strings.ToLower(qb.String())}}
		default:
			ref, recs = caseLayout(rb.String(), 3, r), []gen.FastaRec{{ID: "q", Desc: "q", Seq: caseLayout(qb.String(), 3, r)}}
		}
		for i := 0; i < len(A); i++ {
			for j := 0; j < len(A); j++ {
				res.Sig(fmt.Sprintf("cell|%v|%c|%c|%d", hard, A[i], A[j], layout))
			}
		}
	} else {
		hard = r.Chance(0.5)
		W := r.Range(1, 120)
		if r.Chance(0.15) {
			W = r.Range(121, 2000)
		}
		n := r.Range(1, 40)
		if idx%40 == 11 {
			n = r.Range(150, 400)
			if W > 200 {
				W = r.Range(20, 200)
			}
		}
		if idx%150 == 9 {
			// very wide alignments (position labels beyond 2^15, 2^16, 2^17)
			W = []int{r.Range(32700, 40000), r.Range(65500, 70000), r.Range(131000, 140000)}[r.Intn(3)]
			n = r.Range(1, 4)
		}
		p := gen.SeqProfile{PAmbig: 0.15, PGap: 0.08, PQ: 0.03, PLower: 0.2}
		ref = gen.RandSeq(r, W, gen.SeqProfile{PAmbig: 0.1, PGap: 0.04, PQ: 0.01, PLower: 0.2})
		for i := 0; i < n; i++ {
			id, desc := gen.MakeHeader(r, i)
			var s string
			if r.Chance(0.6) {
				s = gen.Mutate(r, ref, 0.15, p)
			} else {
				s = gen.RandSeq(r, W, p)
			}
			if W >= 8 && r.Chance(0.2) {
				// masked ends: runs of 8-40 N (or '?', '-') from the first column and/or up to the last,
				// as consensus pipelines produce them
				b := []byte(s)
				for _, end := range []int{0, 1} {
					if r.Chance(0.7) {
						n := r.Range(8, 40)
						if n > W {
							n = W
						}
						sym := "NNNn?-"[r.Intn(6)]
						for k := 0; k < n; k++ {
							if end == 0 {
								b[k] = sym
							} else {
								b[W-1-k] = sym
							}
						}
					}
				}
				s = string(b)
			}
			recs = append(recs, gen.FastaRec{ID: id, Desc: desc, Seq: s})
		}
	}
	refName := "reference"
	if r.Chance(0.3) {
		refName = []string{"MN908947.3", "ref", "NC_045512.2 Severe acute respiratory syndrome coronavirus 2"}[r.Intn(3)]
	}
	if len(recs) > 0 && r.Chance(0.15) {
		// a query that carries the reference file's ID (a resequenced reference strain, or the
		// reference itself left in the alignment) is an ordinary query: its row lists its own SNPs
		k := r.Intn(len(recs))
		recs[k].ID = strings.Fields(refName)[0]
		recs[k].Desc = recs[k].ID + []string{"", " resequenced"}[r.Intn(2)]
		res.Count("cases_with_query_named_like_reference", 1)
	}
	refText := noFinalNL(r, gen.RefFasta(refName, ref, gen.PickLineWidth(r, len(ref))))
	aln := noFinalNL(r, gen.RenderFasta(recs, gen.PickLineWidth(r, len(ref))))
	var exp strings.Builder
	exp.WriteString("query,SNPs\n")
	nsnp, ncompat := 0, 0
	for _, rc := range recs {
		sn := expectedSNPs(ref, rc.Seq, hard)
		nsnp += len(sn)
		exp.WriteString(rc.ID + "," + strings.Join(sn, "|") + "\n")
		for i := 0; i < len(ref); i++ {
			if model.Upper(ref[i]) != model.Upper(rc.Seq[i]) && !model.Disjoint(ref[i], rc.Seq[i], hard) {
				ncompat++
			}
		}
	}
	got, err := run.SNPs(refText, aln, hard, false, 0)
	res.Evals++
	res.Count("columns_compared", len(ref)*len(recs))
	res.Count("snps_expected", nsnp)
	res.Count("compatible_but_unequal_columns", ncompat)
	if hard {
		res.Count("runs_hard_gaps", 1)
	}
	argv := []string{"snps", fmt.Sprintf("--hard-gaps=%v", hard)}
	files := map[string]string{"ref.fasta": refText, "aln.fasta": aln, "expected.csv": exp.String(), "observed.csv": got}
	if err != nil {
		res.Fail("error-on-valid-input", "snps.SNPs returned an error on a valid alignment: "+err.Error(), files, argv)
	} else if got != exp.String() {
		res.Fail("snp-list-mismatch", "snps output differs from the base-set model: "+firstDiff(exp.String(), got), files, argv)
	}
	if err == nil && (idx%25 == 3 || idx < 8) {
		useStdin := idx%2 == 0
		binSample(c, &res, idx, "snps", map[string]string{"ref.fasta": refText, "aln.fasta": aln}, func(p func(string) string) []string {
			a := []string{"snps", "-r", p("ref.fasta")}
			if !useStdin {
				a = append(a, "-q", p("aln.fasta"))
			}
			if fw.Mix(uint64(idx)+3003)%3 == 0 {
				// --threshold belongs to --aggregate; without it the per-query report is what is asked for
				a = append(a, "--threshold", []string{"0.5", "0", "1", "0.25"}[fw.Mix(uint64(idx)+3004)%4])
			}
			return boolFlag(a, "hard-gaps", hard, idx%4 == 3 || idx == 2)
		}, map[bool][]byte{true: []byte(aln), false: nil}[useStdin], map[bool]string{true: "", false: "-o"}[idx%3 == 0], got)
	}
	if !exhaustive && nsnp > 0 && ncompat > 0 {
		wc := len(ref) / 50
		if wc > 10 {
			wc = 10
		}
		if len(ref) > 32768 {
			wc = 11 + len(ref)/65536
			res.Count("wide_alignments_beyond_32768_columns", 1)
		}
		res.Sig(fmt.Sprintf("shape|%d|%d|%v", wc, len(recs), hard))
	}
	if idx == 0 || idx == 8 || idx == 9 {
		o := got
		if len(o) > 600 {
			o = o[:600] + "..."
		}
		a := aln
		if len(a) > 600 {
			a = a[:600] + "..."
		}
		rt := refText
		if len(rt) > 600 {
			rt = rt[:600] + "..."
		}
		res.Sample = map[string]interface{}{"reference": rt, "alignment": a, "argv": argv, "observed": o}
	}
	return res
}
