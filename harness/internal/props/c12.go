package props

import (
	"bytes"
	"fmt"
	"os"
	"os/exec"
	"path/filepath"
	"runtime"
	"sort"
	"strings"
	"sync"
	"time"

	"github.com/virus-evolution/gofasta/pkg/variants"
	"github.com/virus-evolution/gofasta/pkg/verifhook"

	"verifharness/internal/fw"
	"verifharness/internal/gen"
	"verifharness/internal/run"
)

const c12Kinds = 16

func init() {
	fw.Register(&fw.Property{
		ID:    "C12",
		Level: "exploration",
		Rule: "for each command (sam toMultiAlign, toPairAlign directory and stdout, sam variants, variants file and stdin mode, snps, closest plain and -n, updown list, updown topranking fasta/csv/dist-push; per-sequence and --aggregate forms) an input with many records and tie-rich content is run once as baseline (threads 1, no jitter) and then re-run under thread counts {1,2,3,5,8,16}, GOMAXPROCS {1,2,4,16}, seeded scheduling jitter at the worker->writer boundaries, plain repeats and, for the binary jobs, a burst of 24 (thorough: 48) processes of the same command started together; outputs must be byte-identical and the race detector silent (harness and gofasta built -race); " +
			"distinct non-trivial = distinct (command, threads, GOMAXPROCS, jitter on/off) perturbations whose execution showed at least one completion-order inversion at a hook site or ran a multi-goroutine pipeline",
		Assumptions: []string{"interleavings and map orders are sampled, not enumerated; the evidence counts the distinct completion permutations and inversions actually observed at each hook site",
			"the race detector only sees races on executed paths"},
		Race:       true,
		MinNontriv: 30,
		Workers:    8,
		Cases: func(tier string) int {
			if tier == "thorough" {
				return 150 * c12Kinds
			}
			return 16 * c12Kinds
		},
		CaseTimeout: 90 * time.Second,
		Finalize: func(a *fw.Agg) {
			if a.Counters["executions_with_inversion"] == 0 {
				a.Inconclusive = append(a.Inconclusive, "RUN: no completion-order inversion was observed at any hook site; the jitter did not perturb the schedule")
			}
			for _, site := range []string{"sam.blockToFastaRecord", "variants.getVariants", "snps.getSNPs", "updown.getLines", "sam.getVariantsSam"} {
				if a.Counters["inversions@"+site] == 0 {
					a.Inconclusive = append(a.Inconclusive, "RUN: hook site "+site+" never completed out of input order")
				}
			}
		},
	})
}

type c12Job struct {
	name    string
	exec    func(threads int) (string, error)
	files   map[string]string
	threads bool // the command has a --threads option
}

func samManyQueries(r *fw.Rng, nq int, conflict bool) gen.SamFile {
	L := r.Range(30, 150)
	ref := gen.Genome(r, L)
	pr := gen.DefaultSamProfile()
	pr.MaxQueries = nq
	pr.AllowConflict = conflict
	pr.MaxSegs = 2
	// force exactly nq queries by repeated generation of a larger file
	sf := gen.MakeSam(r, ref, pr)
	for tries := 0; tries < 6 && len(sf.Queries) < nq/2; tries++ {
		sf = gen.MakeSam(r, ref, pr)
	}
	return sf
}

func c12MakeJob(c *fw.Ctx, r *fw.Rng, kind, idx int) c12Job {
	nrec := r.Range(50, 160)
	if c.Thorough() && r.Chance(0.3) {
		nrec = r.Range(160, 400)
	}
	switch kind {
	case 0:
		sf := samManyQueries(r, nrec, true)
		wrap := []int{-1, 7, 60}[r.Intn(3)]
		pad := r.Chance(0.5)
		return c12Job{name: "sam toMultiAlign", threads: true, files: map[string]string{"in.sam": sf.Text},
			exec: func(t int) (string, error) { return run.ToMultiAlign(sf.Text, wrap, -1, -1, pad, t) }}
	case 1:
		sf := samManyQueries(r, nrec, false)
		// make some query names collide after the writer's file-name sanitising ('/' -> '_'):
		// the later query must then deterministically overwrite the earlier one's file
		for j := 1; j < len(sf.Queries); j++ {
			if !r.Chance(0.15) {
				continue
			}
			prev, cur := sf.Queries[j-1].Name, sf.Queries[j].Name
			var twin string
			switch {
			case strings.Contains(prev, "/"):
				twin = strings.Replace(prev, "/", "_", 1)
			case strings.Contains(prev, "_"):
				twin = strings.Replace(prev, "_", "/", 1)
			default:
				continue
			}
			if strings.Contains(sf.Text, twin+"\t") {
				continue
			}
			sf.Text = strings.ReplaceAll(sf.Text, "\n"+cur+"\t", "\n"+twin+"\t")
			sf.Queries[j].Name = twin
		}
		ref := gen.RefFasta(sf.RefName, sf.Ref, 0)
		dir := filepath.Join(c.Tmp, fmt.Sprintf("c12-%d", idx))
		return c12Job{name: "sam toPairAlign (directory)", threads: true, files: map[string]string{"in.sam": sf.Text, "ref.fasta": ref},
			exec: func(t int) (string, error) {
				m, err := run.ToPairAlignDir(sf.Text, ref, dir, -1, -1, -1, false, false, t)
				var sb strings.Builder
				for _, k := range run.SortedKeys(m) {
					sb.WriteString("== " + k + "\n" + m[k])
				}
				return sb.String(), err
			}}
	case 2, 3, 4, 5, 6:
		format := []string{"gb", "gff"}[r.Intn(2)]
		form := "fasta"
		if kind == 2 || kind == 3 {
			form = "sam"
		}
		// overlapping features with equal starts and slippage joins make ties
		opts := gen.AnnoOpts{MaxFeats: 6, AllowUnnamed: true, AllowSlip: true, SplitCodons: true, Rotate: true, NoStop: true}
		vp := gen.DefaultVarProfile()
		vp.Recur = true
		vp.MaxInsSites = 5
		nq := nrec
		if kind == 6 && r.Chance(0.6) {
			nq = r.Range(1, 30) // short alignments fit into the reader's channel buffer
		}
		ac := makeAnnoCase(r, false, format, form, vp, nq, opts)
		if form == "sam" {
			ac = recurSam(r, ac)
		}
		agg := kind == 3 || kind == 5
		appendSNP := r.Chance(0.5)
		name := map[string]string{"fasta": "variants", "sam": "sam variants"}[form]
		if agg {
			name += " --aggregate"
		}
		if kind == 6 {
			// stdin mode: reference first, any io.Reader
			recs := append([]gen.FastaRec{{ID: ac.an.RefName, Desc: ac.an.RefName, Seq: ac.msa.RefRow}}, ac.msa.Rows...)
			msaTxt := gen.RenderFasta(recs, 0)
			agg6 := r.Chance(0.3)
			f := ac.files()
			f["msa.fasta"] = msaTxt
			return c12Job{name: "variants (stdin)", threads: true, files: f,
				exec: func(t int) (string, error) {
					var out bytes.Buffer
					err := variants.Variants(strings.NewReader(msaTxt), true, ac.an.RefName, strings.NewReader(ac.annoTxt), ac.format, &out, -1, -1, agg6, 0, appendSNP, t)
					if err != nil {
						return "", err
					}
					return out.String(), nil
				}}
		}
		return c12Job{name: name, threads: true, files: ac.files(),
			exec: func(t int) (string, error) { return ac.runVariants(-1, -1, agg, 0, appendSNP, t) }}
	case 7, 8:
		W := r.Range(20, 120)
		ref := gen.Genome(r, W)
		vp := gen.DefaultVarProfile()
		vp.Recur = true
		vp.MaxInsSites = 0
		msa := gen.MakeVariantMSA(r, ref, nrec, vp)
		refTxt := gen.RefFasta("reference", ref, 0)
		aln := gen.RenderFasta(msa.Rows, 0)
		agg := kind == 8
		hard := r.Chance(0.3)
		return c12Job{name: map[bool]string{false: "snps", true: "snps --aggregate"}[agg], files: map[string]string{"ref.fasta": refTxt, "aln.fasta": aln},
			exec: func(t int) (string, error) { return run.SNPs(refTxt, aln, hard, agg, 0) }}
	case 9, 10:
		measure := []string{"raw", "snp", "tn93"}[r.Intn(3)]
		qs, ts, _ := c06Inputs(r, measure, false)
		// more queries: one goroutine per query
		for len(qs) < 12 {
			q := qs[r.Intn(len(qs))]
			q.ID = fmt.Sprintf("q%d", len(qs))
			q.Desc = q.ID
			qs = append(qs, q)
		}
		var trs []gen.FastaRec
		for _, t := range ts {
			trs = append(trs, t.rec)
		}
		qText, tText := gen.RenderFasta(qs, 0), gen.RenderFasta(trs, 0)
		n := r.Range(1, 5)
		table := r.Chance(0.5)
		if kind == 9 {
			return c12Job{name: "closest", threads: true, files: map[string]string{"query.fasta": qText, "target.fasta": tText},
				exec: func(t int) (string, error) { return run.Closest(qText, tText, measure, t) }}
		}
		return c12Job{name: "closest -n", threads: true, files: map[string]string{"query.fasta": qText, "target.fasta": tText},
			exec: func(t int) (string, error) { return run.ClosestN(n, -1.0, qText, tText, measure, table, t) }}
	case 11:
		W := r.Range(20, 120)
		ref := gen.Genome(r, W)
		var recs []gen.FastaRec
		for i := 0; i < nrec; i++ {
			recs = append(recs, gen.FastaRec{ID: fmt.Sprintf("s%d", i), Desc: fmt.Sprintf("s%d", i), Seq: ambigRunSeq(r, ref)})
		}
		refTxt, aln := gen.RefFasta("root", ref, 0), gen.RenderFasta(recs, 0)
		return c12Job{name: "updown list", files: map[string]string{"ref.fasta": refTxt, "aln.fasta": aln},
			exec: func(t int) (string, error) { return run.UpdownList(refTxt, aln) }}
	default: // 12, 13
		in := gen.MakeUpdown(r, gen.UpdownProfile{MaxQueries: 8, MaxTargets: nrec, PAmbTract: 0.3, MultiHit: true})
		refTxt := gen.RefFasta("root", in.Ref, 0)
		qTxt, tTxt := gen.RenderFasta(in.Queries, 0), gen.RenderFasta(in.Targets, 0)
		o := run.TopRankingOpts{ThreshPair: 0.5, ThreshTarget: 10000, Table: r.Chance(0.5)}
		switch r.Intn(3) {
		case 0:
			o.SizeTotal = r.Range(1, 12)
		case 1:
			o.DistPush = r.Range(1, 3)
		default:
			o.DistAll = r.Range(1, 4)
		}
		qt, tt := "fasta", "fasta"
		qIn, tIn := qTxt, tTxt
		if kind == 13 {
			qcsv, _ := run.UpdownList(refTxt, qTxt)
			tcsv, _ := run.UpdownList(refTxt, tTxt)
			switch r.Intn(3) {
			case 0:
				qt, tt, qIn, tIn = "csv", "csv", qcsv, tcsv
			case 1:
				qt, qIn = "csv", qcsv
			default:
				tt, tIn = "csv", tcsv
			}
		}
		return c12Job{name: "updown topranking " + qt + "/" + tt, files: map[string]string{"ref.fasta": refTxt, "query": qIn, "target": tIn},
			exec: func(t int) (string, error) { return run.TopRanking(qIn, tIn, refTxt, qt, tt, o) }}
	}
}

// analyseTrace turns a hook trace into counters: inversions per jitter site,
// permutation signatures and map visit orders.
func analyseTrace(res *fw.Result, evs []verifhook.Event) bool {
	bySite := map[string][]int{}
	notes := map[string][]string{}
	for _, e := range evs {
		if e.Kind == 'J' {
			bySite[e.Site] = append(bySite[e.Site], e.Idx)
		} else {
			notes[e.Site] = append(notes[e.Site], e.Value)
		}
	}
	any := false
	for site, seq := range bySite {
		inv := 0
		for i := 1; i < len(seq); i++ {
			if seq[i] < seq[i-1] {
				inv++
			}
		}
		res.Count("hook_events@"+site, len(seq))
		if inv > 0 {
			any = true
			res.Count("inversions@"+site, inv)
			res.Count("executions_out_of_order@"+site, 1)
			h := fw.HashString(fmt.Sprint(seq))
			res.AddSet("completion_permutations@"+site, fmt.Sprintf("%x", h))
		}
	}
	for site, vals := range notes {
		res.AddSet("map_visit_orders@"+site, fmt.Sprintf("%x", fw.HashString(strings.Join(vals, ","))))
	}
	return any
}

func runC12(c *fw.Ctx, idx int) fw.Result {
	var res fw.Result
	r := fw.NewRng(c.Seed, "C12", idx)
	kind := idx % c12Kinds
	if kind >= 14 {
		return runC12Binary(c, r, kind, idx, &res)
	}
	job := c12MakeJob(c, r, kind, idx)
	verifhook.SetJitter(0)
	verifhook.SetRecord(false)
	base, err := job.exec(1)
	res.Evals++
	if err != nil {
		res.Fail("error-on-valid-input", job.name+": baseline run failed: "+err.Error(), job.files, nil)
		return res
	}
	nJ := 6
	if c.Thorough() {
		nJ = 24
	}
	type pert struct {
		threads, procs int
		jitter         uint64
	}
	var perts []pert
	tl := []int{1, 2, 3, 5, 8, 16}
	pl := []int{1, 2, 4, 16}
	for j := 1; j <= nJ; j++ {
		perts = append(perts, pert{tl[r.Intn(len(tl))], pl[r.Intn(len(pl))], uint64(j)*7919 + uint64(idx)})
	}
	for k := 0; k < 3; k++ {
		perts = append(perts, pert{tl[r.Intn(len(tl))], 16, 0}) // plain repeats (map order, natural scheduling)
	}
	before := runtime.GOMAXPROCS(0)
	defer runtime.GOMAXPROCS(before)
	for _, p := range perts {
		runtime.GOMAXPROCS(p.procs)
		verifhook.SetJitter(p.jitter)
		verifhook.SetRecord(true)
		out, err := job.exec(p.threads)
		evs := verifhook.Drain()
		verifhook.SetJitter(0)
		verifhook.SetRecord(false)
		res.Evals++
		inv := analyseTrace(&res, evs)
		if inv {
			res.Count("executions_with_inversion", 1)
		}
		res.Count("executions@"+job.name, 1)
		res.Sig(fmt.Sprintf("%s|t%d|p%d|j%v", job.name, p.threads, p.procs, p.jitter != 0))
		argv := []string{job.name, fmt.Sprintf("threads=%d", p.threads), fmt.Sprintf("GOMAXPROCS=%d", p.procs), fmt.Sprintf("VERIF_JITTER_SEED=%d", p.jitter)}
		if err != nil {
			f := cloneFiles(job.files)
			f["baseline_output.txt"] = base
			res.Fail("schedule-dependent-error:"+job.name, fmt.Sprintf("%s: the baseline run succeeded but the run with threads=%d GOMAXPROCS=%d jitter=%d failed: %v", job.name, p.threads, p.procs, p.jitter, err), f, argv)
			break
		}
		if out != base {
			f := cloneFiles(job.files)
			f["baseline_output.txt"] = base
			f["perturbed_output.txt"] = out
			res.Fail("nondeterministic-output:"+job.name, fmt.Sprintf("%s: output with threads=%d GOMAXPROCS=%d jitter=%d differs from the baseline: %s", job.name, p.threads, p.procs, p.jitter, firstDiff(base, out)), f, argv)
			break
		}
	}
	if idx < 2 {
		res.Sample = map[string]interface{}{"command": job.name, "perturbations": len(perts), "baseline_output": clipStr(base, 400)}
	}
	return res
}

func cloneFiles(m map[string]string) map[string]string {
	o := map[string]string{}
	for k, v := range m {
		o[k] = v
	}
	return o
}

// runC12Binary drives the race-built gofasta binary: toPairAlign -o stdout
// under threads and jitter, and a GOMAXPROCS sweep of other commands.
func runC12Binary(c *fw.Ctx, r *fw.Rng, kind, idx int, res *fw.Result) fw.Result {
	bin := c.BinRace
	if bin == "" {
		bin = c.Bin
	}
	if bin == "" {
		return *res
	}
	d := filepath.Join(c.Tmp, fmt.Sprintf("c12b-%d", idx))
	os.MkdirAll(d, 0755)
	defer os.RemoveAll(d)
	raceLog := filepath.Join(d, "race")
	env := func(procs int, jitter uint64) []string {
		e := []string{"GORACE=halt_on_error=0 atexit_sleep_ms=0 log_path=" + raceLog, "VERIF_HOOK_LOG=" + filepath.Join(d, "hook.log")}
		if procs > 0 {
			e = append(e, fmt.Sprintf("GOMAXPROCS=%d", procs))
		}
		if jitter != 0 {
			e = append(e, fmt.Sprintf("VERIF_JITTER_SEED=%d", jitter))
		}
		return e
	}
	var args []string
	var stdin []byte
	name := ""
	files := map[string]string{}
	nrec := r.Range(40, 120)
	if kind == 14 {
		sf := samManyQueries(r, nrec, false)
		ref := gen.RefFasta(sf.RefName, sf.Ref, 0)
		os.WriteFile(filepath.Join(d, "in.sam"), []byte(sf.Text), 0644)
		os.WriteFile(filepath.Join(d, "ref.fasta"), []byte(ref), 0644)
		args = []string{"sam", "toPairAlign", "-s", filepath.Join(d, "in.sam"), "-r", filepath.Join(d, "ref.fasta"), "-o", "stdout"}
		name = "sam toPairAlign -o stdout"
		files["in.sam"], files["ref.fasta"] = sf.Text, ref
	} else {
		put := func(n, content string) string {
			p := filepath.Join(d, n)
			os.WriteFile(p, []byte(content), 0644)
			files[n] = content
			return p
		}
		switch r.Intn(7) {
		case 3, 4:
			measure := []string{"raw", "snp", "tn93"}[r.Intn(3)]
			qs, ts, _ := c06Inputs(r, measure, false)
			var trs []gen.FastaRec
			for _, t := range ts {
				trs = append(trs, t.rec)
			}
			args = []string{"closest", "--query", put("query.fasta", gen.RenderFasta(qs, 0)), "--target", put("target.fasta", gen.RenderFasta(trs, 0)), "-m", measure}
			name = "closest (binary)"
			if r.Chance(0.5) {
				args = append(args, "-n", fmt.Sprint(r.Range(1, 5)))
				if r.Chance(0.5) {
					args = append(args, "--table")
				}
				name = "closest -n (binary)"
			}
		case 5:
			W := r.Range(20, 120)
			ref := gen.Genome(r, W)
			var recs []gen.FastaRec
			for i := 0; i < nrec*3; i++ {
				recs = append(recs, gen.FastaRec{ID: fmt.Sprintf("s%d", i), Desc: fmt.Sprintf("s%d", i), Seq: ambigRunSeq(r, ref)})
			}
			args = []string{"updown", "list", "-r", put("ref.fasta", gen.RefFasta("root", ref, 0)), "-q", put("aln.fasta", gen.RenderFasta(recs, 0))}
			name = "updown list (binary)"
		case 6:
			in := gen.MakeUpdown(r, gen.UpdownProfile{MaxQueries: 8, MaxTargets: nrec * 2, PAmbTract: 0.3, MultiHit: true})
			args = []string{"updown", "topranking", "-r", put("ref.fasta", gen.RefFasta("root", in.Ref, 0)), "-q", put("query.fasta", gen.RenderFasta(in.Queries, 0)),
				"-t", put("target.fasta", gen.RenderFasta(in.Targets, 0)), "--threshold-target", "10000"}
			switch r.Intn(3) {
			case 0:
				args = append(args, "--size-total", fmt.Sprint(r.Range(1, 12)))
			case 1:
				args = append(args, "--dist-push", fmt.Sprint(r.Range(1, 3)))
			default:
				args = append(args, "--dist-all", fmt.Sprint(r.Range(1, 4)))
			}
			if r.Chance(0.5) {
				args = append(args, "--table")
			}
			name = "updown topranking (binary)"
		case 0:
			sf := samManyQueries(r, nrec, true)
			os.WriteFile(filepath.Join(d, "in.sam"), []byte(sf.Text), 0644)
			args = []string{"sam", "toMultiAlign", "-s", filepath.Join(d, "in.sam")}
			name = "sam toMultiAlign (binary)"
			files["in.sam"] = sf.Text
		case 1:
			W := r.Range(20, 100)
			ref := gen.Genome(r, W)
			vp := gen.DefaultVarProfile()
			vp.MaxInsSites = 0
			msa := gen.MakeVariantMSA(r, ref, nrec, vp)
			os.WriteFile(filepath.Join(d, "ref.fasta"), []byte(gen.RefFasta("reference", ref, 0)), 0644)
			aln := gen.RenderFasta(msa.Rows, 0)
			stdin = []byte(aln)
			args = []string{"snps", "-r", filepath.Join(d, "ref.fasta")}
			name = "snps (binary, stdin)"
			files["aln.fasta"] = aln
		default:
			opts := gen.AnnoOpts{MaxFeats: 5, AllowUnnamed: true, AllowSlip: true, SplitCodons: true, Rotate: true, NoStop: true}
			ac := makeAnnoCase(r, false, []string{"gb", "gff"}[r.Intn(2)], "fasta", gen.DefaultVarProfile(), nrec, opts)
			recs := append([]gen.FastaRec{{ID: ac.an.RefName, Desc: ac.an.RefName, Seq: ac.msa.RefRow}}, ac.msa.Rows...)
			msaTxt := gen.RenderFasta(recs, 0)
			ap := filepath.Join(d, "anno."+ac.format)
			os.WriteFile(ap, []byte(ac.annoTxt), 0644)
			stdin = []byte(msaTxt)
			args = []string{"variants", "-r", ac.an.RefName, "-a", ap}
			name = "variants (binary, stdin)"
			files["msa.fasta"], files["annotation."+ac.format] = msaTxt, ac.annoTxt
		}
	}
	withT := func(t int) []string {
		if strings.HasPrefix(name, "snps") || strings.HasPrefix(name, "updown") {
			return args
		}
		return append(append([]string{}, args...), "-t", fmt.Sprint(t))
	}
	base := fw.RunBin(bin, withT(1), stdin, env(0, 0), "", 40*time.Second)
	res.Evals++
	if base.TimedOut {
		binHang(res, base, name+" (baseline)", files, withT(1))
		return *res
	}
	if base.Exit != 0 {
		files["stderr.txt"] = string(base.Stderr)
		res.Fail("error-on-valid-input", fmt.Sprintf("%s: baseline exit %d", name, base.Exit), files, withT(1))
		return *res
	}
	n := 6
	if c.Thorough() {
		n = 16
	}
	for k := 0; k < n; k++ {
		t := []int{1, 2, 3, 5, 8, 16}[r.Intn(6)]
		p := []int{1, 2, 4, 16}[r.Intn(4)]
		j := uint64(0)
		if k%3 != 2 {
			j = uint64(k+1)*104729 + uint64(idx)
		}
		os.Remove(filepath.Join(d, "hook.log"))
		// processor count as the process sees it (runtime.NumCPU follows the affinity mask)
		cpus := []int{0, 0, 1, 2, 3, 7}[r.Intn(6)]
		if _, err := exec.LookPath("taskset"); err != nil || cpus >= runtime.NumCPU() {
			cpus = 0
		}
		var br fw.BinResult
		if k%3 == 1 {
			// stdout is a one-page pipe drained slowly: the bytes that arrive must not depend on
			// how fast the destination takes them
			if cpus > 0 {
				br = fw.RunBinSlowPipe("taskset", append([]string{"-c", fmt.Sprintf("0-%d", cpus-1), bin}, withT(t)...), stdin, env(p, j), "", 40*time.Second)
				res.Count("binary_executions_with_restricted_cpus", 1)
			} else {
				br = fw.RunBinSlowPipe(bin, withT(t), stdin, env(p, j), "", 40*time.Second)
			}
			res.Count("binary_executions_into_slow_pipe", 1)
		} else if cpus > 0 {
			if r.Chance(0.5) {
				p = 0 // GOMAXPROCS left to default to the visible processors
			}
			br = fw.RunBin("taskset", append([]string{"-c", fmt.Sprintf("0-%d", cpus-1), bin}, withT(t)...), stdin, env(p, j), "", 40*time.Second)
			res.Count("binary_executions_with_restricted_cpus", 1)
		} else {
			br = fw.RunBin(bin, withT(t), stdin, env(p, j), "", 40*time.Second)
		}
		res.Evals++
		res.Count("binary_executions@"+name, 1)
		res.Sig(fmt.Sprintf("%s|t%d|p%d|j%v|c%d", name, t, p, j != 0, cpus))
		// hook log of the binary
		if hb, err := os.ReadFile(filepath.Join(d, "hook.log")); err == nil {
			var evs []verifhook.Event
			for _, l := range strings.Split(string(hb), "\n") {
				f := strings.Split(l, "\t")
				if len(f) == 5 && len(f[0]) == 1 {
					var id int
					fmt.Sscan(f[2], &id)
					evs = append(evs, verifhook.Event{Kind: f[0][0], Site: f[1], Idx: id, Value: f[3]})
				}
			}
			if analyseTrace(res, evs) {
				res.Count("executions_with_inversion", 1)
			}
		}
		argv := append([]string{fmt.Sprintf("GOMAXPROCS=%d", p), fmt.Sprintf("VERIF_JITTER_SEED=%d", j), fmt.Sprintf("cpus(taskset)=%d", cpus)}, withT(t)...)
		if br.TimedOut {
			binHang(res, br, name, files, argv)
			break
		}
		if br.Exit != 0 {
			f := cloneFiles(files)
			f["stderr.txt"] = string(br.Stderr)
			res.Fail("schedule-dependent-error:"+name, fmt.Sprintf("%s: baseline exit 0 but exit %d with threads=%d GOMAXPROCS=%d jitter=%d", name, br.Exit, t, p, j), f, argv)
			break
		}
		if !bytes.Equal(br.Stdout, base.Stdout) {
			f := cloneFiles(files)
			f["baseline_stdout.txt"] = string(base.Stdout)
			f["perturbed_stdout.txt"] = string(br.Stdout)
			res.Fail("nondeterministic-output:"+name, fmt.Sprintf("%s: stdout with threads=%d GOMAXPROCS=%d jitter=%d differs from the baseline: %s", name, t, p, j, firstDiff(string(base.Stdout), string(br.Stdout))), f, argv)
			break
		}
	}
	// a burst of the same command started at once as separate processes (a pipeline step run for many
	// samples in parallel on one node): each process is descheduled at arbitrary points by the
	// kernel, every one of them must still write the baseline's bytes. The plain binary is used:
	// the point is natural timing under contention, not race reports.
	if len(res.Viol) == 0 && c.Bin != "" {
		B := 24
		if c.Thorough() {
			B = 48
		}
		type burstOut struct {
			br    fw.BinResult
			procs int
		}
		outs := make([]burstOut, B)
		var wg sync.WaitGroup
		for i := 0; i < B; i++ {
			wg.Add(1)
			go func(i int) {
				defer wg.Done()
				procs := []int{2, 0, 2, 4}[i%4]
				var e []string
				if procs > 0 {
					e = []string{fmt.Sprintf("GOMAXPROCS=%d", procs)}
				}
				outs[i] = burstOut{fw.RunBin(c.Bin, withT([]int{1, 2, 8}[i%3]), stdin, e, "", 60*time.Second), procs}
			}(i)
		}
		wg.Wait()
		res.Evals += B
		res.Count("binary_executions_in_concurrent_bursts", B)
		for i, o := range outs {
			argv := append([]string{fmt.Sprintf("GOMAXPROCS=%d", o.procs), fmt.Sprintf("process %d of %d started together", i+1, B)}, withT([]int{1, 2, 8}[i%3])...)
			if o.br.TimedOut {
				binHang(res, o.br, name+" (concurrent burst)", files, argv)
				break
			}
			if o.br.Exit != 0 || !bytes.Equal(o.br.Stdout, base.Stdout) {
				f := cloneFiles(files)
				f["baseline_stdout.txt"] = string(base.Stdout)
				f["perturbed_stdout.txt"] = string(o.br.Stdout)
				f["stderr.txt"] = clipStr(string(o.br.Stderr), 4000)
				res.Fail("nondeterministic-output:"+name, fmt.Sprintf("%s: one of %d processes started together (GOMAXPROCS=%d, exit %d) wrote bytes that differ from the baseline: %s", name, B, o.procs, o.br.Exit, firstDiff(string(base.Stdout), string(o.br.Stdout))), f, argv)
				break
			}
		}
	}
	// race reports of the binary
	logs, _ := filepath.Glob(raceLog + ".*")
	var keys []string
	for _, lf := range logs {
		b, _ := os.ReadFile(lf)
		if n := strings.Count(string(b), "WARNING: DATA RACE"); n > 0 {
			res.Count("binary_race_report_blocks", n)
			keys = append(keys, string(b))
		}
	}
	sort.Strings(keys)
	if len(keys) > 0 {
		f := cloneFiles(files)
		f["race.txt"] = clipStr(keys[0], 20000)
		res.Fail("race-in-binary:"+name, name+": the race detector reported a data race in the gofasta binary", f, args)
	}
	return *res
}

func init() {
	fw.Get("C12").Run = runC12
}
