package props

import (
	"bytes"
	"fmt"
	"io"
	"os"
	"os/exec"
	"path/filepath"
	"strings"
	"time"

	"github.com/virus-evolution/gofasta/pkg/encoding"
	"github.com/virus-evolution/gofasta/pkg/fastaio"
	"github.com/virus-evolution/gofasta/pkg/variants"

	"verifharness/internal/fw"
	"verifharness/internal/gen"
	"verifharness/internal/model"
)

func init() {
	fw.Register(&fw.Property{
		ID:    "C16",
		Level: "exploration",
		Rule: "canonical alignments (1-20 records, width 1-3000, headers with/without description, tabs/spaces) re-laid-out by line width 1..inf, letter case, LF/CRLF/mixed line ends, trailing newline or not, blank and whitespace-only lines; structured corruptions (truncation, record of different length at first/middle/last, foreign symbols incl. 0x00 and 0x80-0xFF, '>' only, '> ' only, no leading '>', empty file, lone CR, a 2 MiB line, duplicated headers) and seeded byte-level mutation (bit flips, splices, repeats); five readers driven in worker processes (ReadAlignment, ReadEncodeAlignment, ReadEncodeScoreAlignment, ReadEncodeAlignmentToList, findReference through variants.Variants); " +
			"distinct non-trivial = distinct (case kind, layout features or corruption kind, outcome pattern of the five readers)",
		Assumptions: []string{"a trailing header with an empty sequence, whether blank lines are skipped or rejected, and foreign symbols in the plain (non-encoding) reader are unspecified: records-or-error are both accepted there",
			"a panic or fatal error kills the worker process and is attributed to the journalled case; a watchdog expiry is a violation only if the goroutine dump shows a closed channel deadlock"},
		Race:       true,
		MinNontriv: 60,
		Cases: func(tier string) int {
			if tier == "thorough" {
				return 60000
			}
			return 4000
		},
		Run:         runC16,
		CaseTimeout: 60 * time.Second,
		Finalize:    c16NativeFuzz,
	})
}

type c16Rec struct {
	ID, Desc, Seq string
	Idx           int
	Score         int64
	A, C, G, T    int
}

// decodeSeq decodes an encoded sequence in linear time (the repository's own
// Decode concatenates strings and is quadratic in the sequence length).
var c16DA = encoding.MakeDecodingArray()

func decodeSeq(b []byte) string {
	out := make([]byte, 0, len(b))
	for _, c := range b {
		out = append(out, c16DA[c]...)
	}
	return string(out)
}

type c16Out struct {
	recs    []c16Rec
	err     error
	badCode string // a raw code that the requested gap mode cannot produce
}

// c16Prime reads a small gap-containing alignment with hardGaps=true through the three encoding
// readers. The readers are functions of their arguments: an earlier call in the other gap mode
// must not change what a later call returns (checked on the judged calls that follow).
func c16Prime() string {
	data := []byte(">p1\nA-CG-T\n>p2\n--ACGT\n")
	for k := 0; k < 2; k++ {
		ch := make(chan fastaio.EncodedFastaRecord)
		cErr := make(chan error)
		cDone := make(chan bool)
		if k == 0 {
			go fastaio.ReadEncodeAlignment(bytes.NewReader(data), true, ch, cErr, cDone)
		} else {
			go fastaio.ReadEncodeScoreAlignment(bytes.NewReader(data), true, ch, cErr, cDone)
		}
		done := false
		for !done {
			select {
			case r := <-ch:
				for i, c := range r.Seq {
					if (c == 244) || (c == 4) != ("A-CG-T--ACGT"[6*r.Idx+i] == '-') {
						return fmt.Sprintf("hardGaps=true read of %s gave code %d at column %d", r.ID, c, i)
					}
				}
			case <-cErr:
				done = true
			case <-cDone:
				done = true
			}
		}
	}
	rs, _ := fastaio.ReadEncodeAlignmentToList(bytes.NewReader(data), true)
	for _, r := range rs {
		for i, c := range r.Seq {
			if c == 244 {
				return fmt.Sprintf("hardGaps=true list read of %s gave the soft gap code at column %d", r.ID, i)
			}
		}
	}
	return ""
}

func softCodes(seq []byte) string {
	for i, c := range seq {
		if c == 4 {
			return fmt.Sprintf("hardGaps=false read returned the hard-gap code 4 at column %d", i)
		}
	}
	return ""
}

// c16ViaPipe: the readers take any io.Reader; when set, the bytes arrive through an OS pipe (an
// *os.File that cannot be rewound or stat-ed for its size), as with `cat x | gofasta ... stdin`.
var c16ViaPipe bool

func c16In(data []byte) (io.Reader, func()) {
	if !c16ViaPipe {
		return bytes.NewReader(data), func() {}
	}
	pr, pw, err := os.Pipe()
	if err != nil {
		return bytes.NewReader(data), func() {}
	}
	go func() {
		pw.Write(data)
		pw.Close()
	}()
	return pr, func() { pr.Close() }
}

func c16Plain(data []byte) c16Out {
	ch := make(chan fastaio.FastaRecord)
	cErr := make(chan error)
	cDone := make(chan bool)
	in, done := c16In(data)
	defer done()
	go fastaio.ReadAlignment(in, ch, cErr, cDone)
	var o c16Out
	for {
		select {
		case r := <-ch:
			o.recs = append(o.recs, c16Rec{ID: r.ID, Desc: r.Description, Seq: r.Seq, Idx: r.Idx})
		case e := <-cErr:
			o.err = e
			return o
		case <-cDone:
			return o
		}
	}
}

func c16Enc(data []byte, score bool) c16Out {
	ch := make(chan fastaio.EncodedFastaRecord)
	cErr := make(chan error)
	cDone := make(chan bool)
	in, done := c16In(data)
	defer done()
	if score {
		go fastaio.ReadEncodeScoreAlignment(in, false, ch, cErr, cDone)
	} else {
		go fastaio.ReadEncodeAlignment(in, false, ch, cErr, cDone)
	}
	var o c16Out
	for {
		select {
		case r := <-ch:
			if o.badCode == "" {
				o.badCode = softCodes(r.Seq)
			}
			o.recs = append(o.recs, c16Rec{ID: r.ID, Desc: r.Description, Seq: decodeSeq(r.Seq), Idx: r.Idx, Score: r.Score, A: r.Count_A, C: r.Count_C, G: r.Count_G, T: r.Count_T})
		case e := <-cErr:
			o.err = e
			return o
		case <-cDone:
			return o
		}
	}
}

func c16List(data []byte) c16Out {
	in, done := c16In(data)
	defer done()
	rs, err := fastaio.ReadEncodeAlignmentToList(in, false)
	var o c16Out
	o.err = err
	for _, r := range rs {
		if o.badCode == "" {
			o.badCode = softCodes(r.Seq)
		}
		o.recs = append(o.recs, c16Rec{ID: r.ID, Desc: r.Description, Seq: decodeSeq(r.Seq), Idx: r.Idx})
	}
	return o
}

// c16Variants drives findReference + the streaming reader through
// variants.Variants with a feature-less GenBank annotation of the right width.
func c16Variants(data []byte, refID string, width int) (string, error) {
	var sb strings.Builder
	sb.WriteString("LOCUS       X\nFEATURES             Location/Qualifiers\n")
	sb.WriteString(fmt.Sprintf("     source          1..%d\n                     /organism=\"x\"\nORIGIN\n", width))
	sb.WriteString("        1 " + strings.Repeat("a", width) + "\n//\n")
	var out bytes.Buffer
	err := variants.Variants(bytes.NewReader(data), false, refID, strings.NewReader(sb.String()), "gb", &out, -1, -1, false, 0, false, 2)
	if err != nil {
		return "", err // goroutines of the early-returned call may still write to out
	}
	return out.String(), nil
}

type layoutOpts struct {
	width   int
	lower   float64
	crlf    int // 0 LF, 1 CRLF, 2 mixed
	noFinal bool
	blanks  int // 0 none, 1 start, 2 middle, 3 end, 4 whitespace-only
}

func layOut(r *fw.Rng, recs []gen.FastaRec, lo layoutOpts) string {
	var lines []string
	for _, rc := range recs {
		lines = append(lines, ">"+rc.Desc)
		s := []byte(rc.Seq)
		for i := range s {
			if s[i] >= 'A' && s[i] <= 'Z' && r.Chance(lo.lower) {
				s[i] += 32
			}
		}
		w := lo.width
		if w <= 0 {
			w = len(s)
		}
		for i := 0; i < len(s); i += w {
			e := i + w
			if e > len(s) {
				e = len(s)
			}
			lines = append(lines, string(s[i:e]))
		}
	}
	switch lo.blanks {
	case 1:
		lines = append([]string{""}, lines...)
	case 2:
		at := 1 + r.Intn(len(lines))
		lines = append(lines[:at], append([]string{""}, lines[at:]...)...)
	case 3:
		lines = append(lines, "", "")
	case 4:
		at := 1 + r.Intn(len(lines))
		lines = append(lines[:at], append([]string{"  \t"}, lines[at:]...)...)
	}
	var sb strings.Builder
	for i, l := range lines {
		sb.WriteString(l)
		if i == len(lines)-1 && lo.noFinal {
			break
		}
		switch lo.crlf {
		case 0:
			sb.WriteString("\n")
		case 1:
			sb.WriteString("\r\n")
		default:
			if r.Chance(0.5) {
				sb.WriteString("\r\n")
			} else {
				sb.WriteString("\n")
			}
		}
	}
	return sb.String()
}

func canonicalAlignment(r *fw.Rng) []gen.FastaRec {
	n := r.Range(1, 20)
	W := r.Range(1, 60)
	if r.Chance(0.2) {
		W = r.Range(61, 3000)
	}
	if r.Chance(0.03) {
		// genomes longer than 64 KiB on a single line (still far below the readers' line limit)
		W = r.Range(66000, 300000)
		n = r.Range(1, 3)
	}
	var recs []gen.FastaRec
	for i := 0; i < n; i++ {
		id, desc := gen.MakeHeader(r, i)
		recs = append(recs, gen.FastaRec{ID: id, Desc: desc, Seq: gen.RandSeq(r, W, gen.SeqProfile{PAmbig: 0.15, PGap: 0.08, PQ: 0.03})})
	}
	return recs
}

func errStr(e error) string {
	if e == nil {
		return "ok"
	}
	return "err"
}

func runC16(c *fw.Ctx, idx int) fw.Result {
	var res fw.Result
	r := fw.NewRng(c.Seed, "C16", idx)
	recs := canonicalAlignment(r)
	W := len(recs[0].Seq)
	kind := []string{"layout", "layout", "corrupt", "corrupt", "mutate"}[r.Intn(5)]
	readers := []string{"ReadAlignment", "ReadEncodeAlignment", "ReadEncodeScoreAlignment", "ReadEncodeAlignmentToList"}
	runAll := func(data []byte) []c16Out {
		res.Evals += 4
		if r.Chance(0.3) {
			res.Count("reads_after_a_hard_gap_read", 1)
			if msg := c16Prime(); msg != "" {
				res.Fail("gap-mode", msg, nil, nil)
			}
		}
		c16ViaPipe = len(data) < 1<<20 && r.Chance(0.15)
		if c16ViaPipe {
			res.Count("reader_batteries_fed_through_an_os_pipe", 1)
		}
		outs := []c16Out{c16Plain(data), c16Enc(data, false), c16Enc(data, true), c16List(data)}
		c16ViaPipe = false
		for ri, o := range outs {
			if o.badCode != "" {
				res.Fail("gap-mode:call-history", fmt.Sprintf("%s: %s (an earlier hardGaps=true read in the same process changed the result)", readers[ri], o.badCode), map[string]string{"input.fasta": clipStr(string(data), 100000)}, nil)
			}
		}
		return outs
	}
	switch kind {
	case "layout":
		var ref string
		for li := 0; li < 4; li++ {
			lo := layoutOpts{width: []int{0, 1, 60, 7, W, W + 3}[r.Intn(6)], lower: []float64{0, 0, 1, 0.4}[r.Intn(4)], crlf: r.Intn(3), noFinal: r.Chance(0.3)}
			if W > 60000 {
				// very long records: unwrapped, or wrapped at a realistic width (the plain
				// reader concatenates strings per line, so tiny widths are quadratic)
				lo.width = []int{0, 0, 70000, 1000}[r.Intn(4)]
			}
			if r.Chance(0.25) {
				lo.blanks = r.Range(1, 4)
			}
			text := layOut(r, recs, lo)
			outs := runAll([]byte(text))
			files := map[string]string{"input.fasta": text}
			feat := fmt.Sprintf("w%d|l%v|e%d|nf%v|b%d", map[bool]int{true: 1, false: 0}[lo.width > 0], lo.lower > 0, lo.crlf, lo.noFinal, lo.blanks)
			pattern := ""
			for ri, o := range outs {
				pattern += errStr(o.err)[:1]
				if lo.blanks != 0 {
					continue // records-or-error both accepted; reaching here means no crash
				}
				if o.err != nil {
					res.Fail("layout:"+readers[ri]+":error-on-valid-layout", fmt.Sprintf("%s rejected a valid layout (%s): %v", readers[ri], feat, o.err), files, nil)
					continue
				}
				if len(o.recs) != len(recs) {
					res.Fail("layout:"+readers[ri]+":record-count", fmt.Sprintf("%s returned %d records for %d (%s)", readers[ri], len(o.recs), len(recs), feat), files, nil)
					continue
				}
				for k, rc := range recs {
					g := o.recs[k]
					if g.ID != rc.ID || g.Desc != rc.Desc || g.Seq != rc.Seq || g.Idx != k {
						res.Fail("layout:"+readers[ri]+":record-content", fmt.Sprintf("%s record %d is {ID:%q Desc:%q Idx:%d Seq:%.30q...}, expected {ID:%q Desc:%q Idx:%d Seq:%.30q...} (%s)", readers[ri], k, g.ID, g.Desc, g.Idx, g.Seq, rc.ID, rc.Desc, k, rc.Seq, feat), files, nil)
						break
					}
					if ri == 2 {
						wantScore := int64(model.Completeness(rc.Seq))
						a, cc, gg, t := strings.Count(rc.Seq, "A"), strings.Count(rc.Seq, "C"), strings.Count(rc.Seq, "G"), strings.Count(rc.Seq, "T")
						if g.Score != wantScore || g.A != a || g.C != cc || g.G != gg || g.T != t {
							res.Fail("layout:scoring", fmt.Sprintf("scoring reader record %d: score %d counts %d/%d/%d/%d, expected %d and %d/%d/%d/%d", k, g.Score, g.A, g.C, g.G, g.T, wantScore, a, cc, gg, t), files, nil)
							break
						}
					}
				}
				res.Count("records_compared", len(recs))
			}
			if lo.blanks >= 1 && lo.blanks <= 3 {
				// empty lines: whether they are skipped or refused is not specified, but it is the
				// same in every reader
				ne := 0
				for _, o := range outs {
					if o.err != nil {
						ne++
					}
				}
				res.Count("blank_line_layouts_compared_across_readers", 1)
				if ne != 0 && ne != len(outs) {
					res.Fail("layout:blank-lines:readers-disagree", fmt.Sprintf("the readers disagree on an alignment with empty lines (%s): accept/reject pattern %s for %v", feat, pattern, readers), files, nil)
				}
			}
			// fifth reader: identical variants output across layouts (skipped for very long
			// records: variants decodes the reference with a quadratic string concatenation)
			if W > 60000 {
				res.Sig("layout|long|" + feat + "|" + pattern)
				res.Count("long_record_layouts", 1)
				continue
			}
			vout, verr := c16Variants([]byte(text), recs[0].ID, len(degap(recs[0].Seq)))
			res.Evals++
			pattern += errStr(verr)[:1]
			if lo.blanks == 0 {
				if verr != nil {
					res.Fail("layout:findReference:error-on-valid-layout", fmt.Sprintf("variants (findReference + streaming reader) rejected a valid layout (%s): %v", feat, verr), files, nil)
				} else if ref == "" {
					ref = vout
				} else if vout != ref {
					res.Fail("layout:findReference:layout-dependent", "variants output differs between two layouts of the same alignment: "+firstDiff(ref, vout), files, nil)
				}
			}
			res.Sig("layout|" + feat + "|" + pattern)
		}
	case "corrupt":
		lo := layoutOpts{width: []int{0, 60, 7}[r.Intn(3)], crlf: r.Intn(2)}
		if W > 60000 {
			lo.width = []int{0, 1000}[r.Intn(2)]
		}
		text := layOut(r, recs, lo)
		ck := []string{"truncate", "shortrec", "longrec", "foreign", "gt-only", "gt-space", "no-leading-gt", "empty", "lone-cr", "huge-line", "dup-header", "nul", "highbit", "only-newlines", "empty-first-record", "empty-middle-record"}[r.Intn(16)]
		mustErr := []bool{false, false, false, false} // per reader: an error is demanded by the property
		data := []byte(text)
		at := []int{0, len(recs) / 2, len(recs) - 1}[r.Intn(3)]
		switch ck {
		case "truncate":
			data = data[:r.Intn(len(data)+1)]
		case "shortrec", "longrec":
			if len(recs) >= 2 {
				rc2 := append([]gen.FastaRec{}, recs...)
				if ck == "shortrec" && W > 1 {
					rc2[at].Seq = rc2[at].Seq[:W-1]
					mustErr = []bool{true, true, true, true}
				} else if ck == "longrec" {
					rc2[at].Seq += "A"
					mustErr = []bool{true, true, true, true}
				}
				data = []byte(layOut(r, rc2, lo))
			}
		case "foreign":
			rc2 := append([]gen.FastaRec{}, recs...)
			b := []byte(rc2[at].Seq)
			// any printable byte outside the 32 accepted characters (the whole set is covered over a
			// run; the neighbours of the letters and of '-' and '?' in the ASCII table are among them)
			foreign := []byte{}
			for ch := 0x20; ch < 0x7f; ch++ {
				if !strings.ContainsRune("ACGTRYSWKMBDHVNacgtryswkmbdhvn-?>", rune(ch)) {
					foreign = append(foreign, byte(ch))
				}
			}
			b[r.Intn(W)] = foreign[r.Intn(len(foreign))]
			rc2[at].Seq = string(b)
			data = []byte(layOut(r, rc2, lo))
			mustErr = []bool{false, true, true, true}
		case "nul", "highbit":
			rc2 := append([]gen.FastaRec{}, recs...)
			b := []byte(rc2[at].Seq)
			if ck == "nul" {
				b[r.Intn(W)] = 0
			} else {
				b[r.Intn(W)] = byte(0x80 + r.Intn(0x80))
			}
			rc2[at].Seq = string(b)
			data = []byte(layOut(r, rc2, lo))
			mustErr = []bool{false, true, true, true}
		case "gt-only":
			rc2 := append([]gen.FastaRec{}, recs...)
			rc2[at].Desc = ""
			data = []byte(layOut(r, rc2, lo))
		case "gt-space":
			rc2 := append([]gen.FastaRec{}, recs...)
			rc2[at].Desc = " "
			data = []byte(layOut(r, rc2, lo))
		case "no-leading-gt":
			switch r.Intn(4) {
			case 0:
				data = data[1:]
			case 1:
				// something in front of the first '>': a byte order mark, a stray character, a
				// sequence line without a header
				data = append([]byte{0xEF, 0xBB, 0xBF}, data...)
			case 2:
				data = append([]byte(string("#; \t@")[r.Intn(5):][:1]), data...)
			default:
				data = append([]byte("ACGT\n"), data...)
			}
			mustErr = []bool{true, true, true, true}
		case "empty":
			data = nil
			mustErr = []bool{true, true, true, true}
		case "only-newlines":
			data = []byte(strings.Repeat("\n", r.Range(1, 4)))
			mustErr = []bool{true, true, true, true}
		case "lone-cr":
			p := r.Intn(len(data))
			data = append(append(append([]byte{}, data[:p]...), '\r'), data[p:]...)
		case "huge-line":
			big := strings.Repeat("A", 2<<20)
			if r.Chance(0.4) || len(recs) < 2 {
				data = []byte(">big\n" + big + "\n>second\n" + big + "\n")
			} else {
				// the over-long row sits in a later record (middle or last) of an ordinary
				// alignment: whatever the reader's line limit, the row has another length than
				// the records before it, so every reader must refuse the file
				rc2 := append([]gen.FastaRec{}, recs...)
				k := at
				if k == 0 {
					k = len(recs) - 1
				}
				rc2[k].Seq = big
				data = []byte(gen.RenderFasta(rc2, 0))
				mustErr = []bool{true, true, true, true}
			}
		case "empty-first-record", "empty-middle-record":
			// a header with an ID but no sequence: its length (0) differs from the other records'
			if len(recs) >= 2 {
				rc2 := append([]gen.FastaRec{}, recs...)
				k := 0
				if ck == "empty-middle-record" {
					k = 1 + r.Intn(len(recs)-1)
					if k == len(recs)-1 && len(recs) > 2 {
						k--
					}
				}
				if k < len(recs)-1 { // a trailing empty record is an unspecified zone
					rc2[k].Seq = ""
					if ck == "empty-first-record" && len(recs) > 2 && r.Chance(0.3) {
						rc2[1].Seq = ""
					}
					mustErr = []bool{true, true, true, true}
				}
				data = []byte(layOut(r, rc2, lo))
			}
		case "dup-header":
			rc2 := append([]gen.FastaRec{}, recs...)
			rc2 = append(rc2, rc2[at])
			data = []byte(layOut(r, rc2, lo))
		}
		outs := runAll(data)
		files := map[string]string{"input.fasta": clipStr(string(data), 200000)}
		pattern := ""
		for ri, o := range outs {
			pattern += errStr(o.err)[:1]
			if mustErr[ri] && o.err == nil {
				res.Fail("corrupt:"+ck+":"+readers[ri]+":accepted", fmt.Sprintf("%s accepted an input corrupted by %q (at record %d) without an error, returning %d records", readers[ri], ck, at, len(o.recs)), files, nil)
			}
		}
		c16Agreement(&res, outs, readers, files, "corrupt:"+ck)
		refID := recs[0].ID
		var verr error
		if W <= 60000 {
			_, verr = c16Variants(data, refID, len(degap(recs[0].Seq)))
		} else {
			verr = fmt.Errorf("skipped for very long records")
		}
		res.Evals++
		pattern += errStr(verr)[:1]
		if (ck == "no-leading-gt" || ck == "empty" || ck == "only-newlines") && verr == nil {
			res.Fail("corrupt:"+ck+":findReference:accepted", "variants accepted an input without a leading header / without records", files, nil)
		}
		res.Count("corruption_"+ck, 1)
		res.Sig("corrupt|" + ck + "|" + pattern)
	default: // mutate
		lo := layoutOpts{width: []int{0, 60, 7}[r.Intn(3)], crlf: r.Intn(3), lower: 0.2}
		if W > 60000 {
			lo.width = []int{0, 1000}[r.Intn(2)]
		}
		data := []byte(layOut(r, recs, lo))
		nm := r.Range(1, 6)
		ops := ""
		for k := 0; k < nm && len(data) > 0; k++ {
			p := r.Intn(len(data))
			switch r.Intn(6) {
			case 0:
				data[p] ^= 1 << uint(r.Intn(8))
				ops += "f"
			case 1:
				data = append(data[:p], data[p+1:]...)
				ops += "d"
			case 2:
				data = append(append(append([]byte{}, data[:p]...), byte(r.Intn(256))), data[p:]...)
				ops += "i"
			case 3:
				q := r.Intn(len(data))
				if q < p {
					p, q = q, p
				}
				data = append(append(append([]byte{}, data[:q]...), data[p:q]...), data[q:]...)
				ops += "r"
			case 4:
				data[p] = "\n\r> \t"[r.Intn(5)]
				ops += "s"
			default:
				q := r.Intn(len(data))
				if q < p {
					p, q = q, p
				}
				data = append(append([]byte{}, data[:p]...), data[q:]...)
				ops += "c"
			}
		}
		outs := runAll(data)
		files := map[string]string{"input.fasta": string(data)}
		pattern := ""
		for _, o := range outs {
			pattern += errStr(o.err)[:1]
		}
		c16Agreement(&res, outs, readers, files, "mutate")
		var verr error
		if W <= 60000 {
			_, verr = c16Variants(data, recs[0].ID, len(degap(recs[0].Seq)))
		}
		res.Evals++
		pattern += errStr(verr)[:1]
		res.Count("mutated_inputs", 1)
		res.Sig("mutate|" + ops[:1] + "|" + pattern)
	}
	if idx < 3 {
		res.Sample = map[string]interface{}{"kind": kind, "first_record": recs[0].Desc, "width": W, "records": len(recs)}
	}
	return res
}

// c16Agreement: on inputs where no reader errs, all readers return the same records.
func c16Agreement(res *fw.Result, outs []c16Out, readers []string, files map[string]string, class string) {
	for _, o := range outs {
		if o.err != nil {
			return
		}
	}
	res.Count("agreement_checks", 1)
	for ri := 1; ri < len(outs); ri++ {
		a, b := outs[0].recs, outs[ri].recs
		same := len(a) == len(b)
		for k := 0; same && k < len(a); k++ {
			same = a[k].ID == b[k].ID && a[k].Desc == b[k].Desc && a[k].Idx == b[k].Idx && strings.ToUpper(a[k].Seq) == b[k].Seq
		}
		if !same {
			res.Fail(class+":readers-disagree", fmt.Sprintf("%s and %s return different records for an input neither rejects (%d vs %d records)", readers[0], readers[ri], len(a), len(b)), files, nil)
		}
	}
}

var _ = io.EOF

// c16NativeFuzz runs Go's coverage-guided fuzzer on the reader target with a
// fixed execution budget (no wall-clock budget) and turns a crasher into a
// violation with the input as witness.
func c16NativeFuzz(a *fw.Agg) {
	execs := "30000x"
	if a.Tier == "thorough" {
		execs = "600000x"
	}
	hdir := filepath.Join(fw.VerifDir(), "harness")
	pkgDir := filepath.Join(hdir, "internal", "props")
	crashDir := filepath.Join(pkgDir, "testdata", "fuzz", "FuzzFastaReaders")
	os.RemoveAll(filepath.Join(pkgDir, "testdata"))
	modfile := filepath.Join(fw.BuildDir(), "harness.mod")
	args := []string{"test", "-modfile=" + modfile, "-tags", "verif", "-vet=off", "-run", "^$", "-fuzz", "^FuzzFastaReaders$", "-fuzztime", execs, "-parallel", "12", "./internal/props/"}
	cmd := exec.Command("go", args...)
	cmd.Dir = hdir
	var out bytes.Buffer
	cmd.Stdout = &out
	cmd.Stderr = &out
	done := make(chan error, 1)
	if err := cmd.Start(); err != nil {
		a.Inconclusive = append(a.Inconclusive, "native fuzzing could not be started: "+err.Error())
		return
	}
	go func() { done <- cmd.Wait() }()
	var err error
	select {
	case err = <-done:
	case <-time.After(40 * time.Minute):
		cmd.Process.Kill()
		<-done
		a.Inconclusive = append(a.Inconclusive, "native fuzzing watchdog fired (inconclusive, not a verdict)")
		os.RemoveAll(filepath.Join(pkgDir, "testdata"))
		return
	}
	text := out.String()
	// last progress line: "fuzz: elapsed: 3s, execs: 30000 (9876/sec), new interesting: 12 (total: 40)"
	var nexec, interesting int
	for _, l := range strings.Split(text, "\n") {
		if i := strings.Index(l, "execs: "); i >= 0 {
			fmt.Sscanf(l[i:], "execs: %d", &nexec)
			if j := strings.Index(l, "(total: "); j >= 0 {
				fmt.Sscanf(l[j:], "(total: %d", &interesting)
			}
		}
	}
	a.Counters["native_fuzz_executions"] += nexec
	a.Counters["native_fuzz_interesting_inputs"] += interesting
	a.Evals += nexec
	if err != nil {
		files := map[string]string{"go_test_fuzz_output.txt": clipStr(text, 30000)}
		ents, _ := os.ReadDir(crashDir)
		for _, e := range ents {
			b, _ := os.ReadFile(filepath.Join(crashDir, e.Name()))
			files["crasher_"+e.Name()] = string(b)
		}
		if len(ents) > 0 || strings.Contains(text, "--- FAIL") || strings.Contains(text, "panic:") {
			a.AddViolation(-1, fw.Violation{Class: "native-fuzz-crasher", Msg: "Go native fuzzing found an input on which a FASTA reader panics, hangs or the readers disagree: " + firstFuzzFailure(text), Files: files})
		} else {
			a.Inconclusive = append(a.Inconclusive, "native fuzzing failed to run: "+clipStr(text, 300))
		}
	}
	os.RemoveAll(filepath.Join(pkgDir, "testdata"))
}

func firstFuzzFailure(text string) string {
	for _, l := range strings.Split(text, "\n") {
		t := strings.TrimSpace(l)
		if strings.HasPrefix(t, "panic:") || strings.Contains(t, "readers disagree") || strings.Contains(t, "fuzzing process hung") {
			return t
		}
	}
	return "see go_test_fuzz_output.txt"
}
