package props

import (
	"fmt"
	"sort"
	"strings"

	"verifharness/internal/fw"
	"verifharness/internal/gen"
	"verifharness/internal/model"
	"verifharness/internal/run"
)

func init() {
	fw.Register(&fw.Property{
		ID:         "C05",
		Level:      "exploration",
		Jitter:     true,
		RaceSample: true,
		Rule: "gapped (reference row, query row) pairs with 0-6 insertions and 0-6 deletions of length 1-12 anywhere (first/last column, adjacent to each other, inside/adjacent to features), as a FASTA MSA of 1-8 queries (so the reference row also has gap columns caused by other queries' insertions, including partially filled insertion columns) and as SAM; model = indel scan in reference coordinates; relation = the list from the k-query MSA equals the list from the 2-row MSA (reference + that query, both-gap columns removed); " +
			"distinct non-trivial = distinct (form, #ins class, #del class, insertion-after-earlier-reference-gap, leading/trailing insertion, end-abutting deletion kinds) for queries with at least one indel",
		Assumptions: []string{"the relative order of del:P and ins:P records at one P is not part of the statement; only the ins/del multiset and non-decreasing positions are judged"},
		MinNontriv:  40,
		Cases: func(tier string) int {
			if tier == "thorough" {
				return 300000
			}
			return 3000
		},
		Run: runC05,
	})
}

func indelStrings(ms []model.Mut) []string {
	var o []string
	for _, m := range ms {
		if m.Kind == "ins" || m.Kind == "del" {
			o = append(o, m.Raw)
		}
	}
	return o
}

func runC05(c *fw.Ctx, idx int) fw.Result {
	var res fw.Result
	r := fw.NewRng(c.Seed, "C05", idx)
	format := []string{"gb", "gff"}[r.Intn(2)]
	form := "fasta"
	if r.Chance(0.3) {
		form = "sam"
	}
	vp := gen.DefaultVarProfile()
	vp.PDel = 0.05
	vp.MaxInsSites = 6
	vp.PSub = 0.03
	opts := gen.AnnoOpts{MaxFeats: 3, AllowUnnamed: false, AllowSlip: false, SplitCodons: true, Rotate: true, NoStop: true}
	ac := makeAnnoCase(r, c.Thorough(), format, form, vp, 8, opts)
	if form == "sam" {
		// regenerate the SAM with an indel-heavy profile
		pr := gen.DefaultSamProfile()
		pr.MaxQueries = 8
		pr.PIns, pr.PDel, pr.PSkip = 0.08, 0.08, 0.01
		pr.MaxIndel = 12
		pr.PSub = 0.03
		ac.sf = gen.MakeSam(r, ac.an.Ref, pr)
		ac.sf.Text = strings.ReplaceAll(ac.sf.Text, "SN:"+ac.sf.RefName+"\t", "SN:"+ac.an.RefName+"\t")
		ac.sf.Text = strings.ReplaceAll(ac.sf.Text, "\t"+ac.sf.RefName+"\t", "\t"+ac.an.RefName+"\t")
		ac.names, ac.pairs = nil, nil
		for _, q := range ac.sf.Queries {
			rr, qr, _ := model.PairAlign(q, ac.an.Ref)
			ac.names = append(ac.names, q.Name)
			ac.pairs = append(ac.pairs, model.NewPairView(rr, qr))
		}
	}
	out, err := ac.runVariants(-1, -1, false, 0, false, pickThreads(r))
	res.Evals++
	files := ac.files()
	files["observed.csv"] = out
	argv := ac.argv()
	class := form
	if err != nil {
		res.Fail(class+":error-on-valid-input", "variants returned an error on valid input: "+err.Error(), files, argv)
		return res
	}
	if idx%20 == 13 {
		ac.binVariants(c, &res, idx, -1, -1, false, 0, false, 2, out)
	}
	names, muts, ok := model.ParseVariantsCSV(out)
	if !ok || strings.Join(names, "\n") != strings.Join(ac.names, "\n") {
		res.Fail(class+":rows", "output rows do not match the queries", files, argv)
		return res
	}
	L := len(ac.an.Ref)
	for qi, pv := range ac.pairs {
		exp := pv.Indels()
		var es []string
		for _, e := range exp {
			es = append(es, e.String())
		}
		obs := indelStrings(muts[qi])
		se, so := model.SortedStrings(es), model.SortedStrings(obs)
		// classify the shape of this query's indels
		nIns, nDel := 0, 0
		afterGap, leadIns, trailIns := false, false, false
		for _, e := range exp {
			if e.Kind == "ins" {
				nIns++
				if e.Pos == 0 {
					leadIns = true
				}
				if e.Pos == L {
					trailIns = true
				}
				// is there a reference-gap column to the left of this insertion?
				col := len(pv.RefRow)
				if e.Pos < L {
					col = pv.ColOfRef[e.Pos]
				}
				seen := 0
				for i := 0; i < col && seen < e.Pos; i++ {
					if pv.RefRow[i] == '-' {
						afterGap = true
						break
					}
					seen++
				}
			} else {
				nDel++
			}
		}
		sub := "indel-list"
		if strings.Join(se, "|") != strings.Join(so, "|") {
			// narrow the class for diagnosis
			insE, insO := filterPrefix(se, "ins:"), filterPrefix(so, "ins:")
			delE, delO := filterPrefix(se, "del:"), filterPrefix(so, "del:")
			switch {
			case strings.Join(delE, "|") == strings.Join(delO, "|") && len(insE) == len(insO):
				sub = "insertion-coordinate"
			case strings.Join(insE, "|") == strings.Join(insO, "|"):
				sub = "deletion-list"
			}
			res.Fail(class+":"+sub, fmt.Sprintf("query %s: reported indels %v, expected in reference coordinates %v", ac.names[qi], obs, es), files, argv)
		}
		// positions non-decreasing over the whole record list
		last := -1
		for _, m := range muts[qi] {
			p := m.Pos
			if m.Kind == "aa" {
				continue
			}
			if p < last {
				res.Fail(class+":position-order", fmt.Sprintf("query %s: record %s appears after position %d", ac.names[qi], m.Raw, last), files, argv)
				break
			}
			last = p
		}
		res.Count("queries_checked", 1)
		res.Count("insertions_expected", nIns)
		res.Count("deletions_expected", nDel)
		if nIns+nDel > 0 {
			ic, dc := nIns, nDel
			if ic > 3 {
				ic = 3
			}
			if dc > 3 {
				dc = 3
			}
			endDel := ""
			if strings.HasPrefix(degapCols(pv), "-") {
				endDel += "L"
			}
			if strings.HasSuffix(degapCols(pv), "-") {
				endDel += "R"
			}
			res.Sig(fmt.Sprintf("%s|%d|%d|%v%v%v|%s", form, ic, dc, afterGap, leadIns, trailIns, endDel))
			if afterGap {
				res.Count("insertions_after_earlier_reference_gap_queries", 1)
			}
		}
	}
	// an indel record has one position, P, whatever its length: under --start s / --end e it is
	// kept iff s <= P <= e, also when s or e falls just behind a long indel
	if idx%3 == 1 && len(res.Viol) == 0 {
		var long []model.Mut
		for _, ms := range muts {
			for _, m := range ms {
				if (m.Kind == "ins" || m.Kind == "del") && m.Len >= 2 {
					long = append(long, m)
				}
			}
		}
		if len(long) > 0 {
			m := long[r.Intn(len(long))]
			bound := m.Pos + 1 + r.Intn(m.Len-1)
			if bound > L {
				bound = L
			}
			ws, we := bound, -1
			if r.Chance(0.3) {
				ws, we = -1, bound
			}
			if ws == -1 || ws >= 1 {
				outW, errW := ac.runVariants(ws, we, false, 0, false, 1)
				res.Evals++
				wargv := ac.argv(fmt.Sprintf("--start=%d", ws), fmt.Sprintf("--end=%d", we))
				if errW != nil {
					res.Fail(class+":error-on-valid-input", "variants with a window returned an error: "+errW.Error(), files, wargv)
				} else if _, mW, okW := model.ParseVariantsCSV(outW); okW && len(mW) == len(muts) {
					res.Count("indel_window_relations_checked", 1)
					for qi := range muts {
						var want []string
						for _, x := range muts[qi] {
							if (x.Kind == "ins" || x.Kind == "del") && (ws == -1 || x.Pos >= ws) && (we == -1 || x.Pos <= we) {
								want = append(want, x.Raw)
							}
						}
						gotW := indelStrings(mW[qi])
						if strings.Join(model.SortedStrings(want), "|") != strings.Join(model.SortedStrings(gotW), "|") {
							files["observed_window.csv"] = outW
							res.Fail(class+":indel-window", fmt.Sprintf("query %s with --start %d --end %d: indel records %v, expected those of the full list with the position inside the window: %v", ac.names[qi], ws, we, gotW, want), files, wargv)
							break
						}
					}
				}
			}
		}
	}
	// relation: k-query MSA vs 2-row MSA of each query
	if form == "fasta" && ac.refID != "" {
		for qi, q := range ac.msa.Rows {
			if qi >= 3 {
				break
			}
			var rb, qb strings.Builder
			for i := 0; i < len(ac.msa.RefRow); i++ {
				if ac.msa.RefRow[i] == '-' && q.Seq[i] == '-' {
					continue
				}
				rb.WriteByte(ac.msa.RefRow[i])
				qb.WriteByte(q.Seq[i])
			}
			two := ">" + ac.refID + "\n" + rb.String() + "\n>" + q.ID + "\n" + qb.String() + "\n"
			out2, err2 := run.Variants(two, ac.refID, ac.annoTxt, ac.format, -1, -1, false, 0, false, 1)
			res.Evals++
			if err2 != nil {
				res.Fail(class+":error-on-valid-input", "variants on the 2-row alignment failed: "+err2.Error(), files, argv)
				continue
			}
			_, m2, ok2 := model.ParseVariantsCSV(out2)
			if !ok2 || len(m2) != 1 {
				continue
			}
			var a, b []string
			for _, m := range muts[qi] {
				a = append(a, m.Raw)
			}
			for _, m := range m2[0] {
				b = append(b, m.Raw)
			}
			sort.Strings(a)
			sort.Strings(b)
			res.Count("two_row_relations_checked", 1)
			if strings.Join(a, "|") != strings.Join(b, "|") {
				f2 := ac.files()
				f2["two_row.fasta"] = two
				f2["observed_msa.csv"] = out
				f2["observed_two_row.csv"] = out2
				res.Fail(class+":both-gap-column-relation", fmt.Sprintf("query %s: mutation list changes when the columns that are gaps in both reference and query are removed: %v vs %v", q.ID, a, b), f2, argv)
			}
		}
	}
	if idx < 2 {
		res.Sample = map[string]interface{}{"input": clipStr(ac.msaTxt+ac.sf.Text, 900), "argv": argv, "observed": clipStr(out, 500)}
	}
	return res
}

func filterPrefix(s []string, p string) []string {
	var o []string
	for _, x := range s {
		if strings.HasPrefix(x, p) {
			o = append(o, x)
		}
	}
	return o
}

// degapCols returns the query symbols at the reference bases (for end-abutting deletion detection).
func degapCols(pv model.PairView) string {
	b := make([]byte, pv.RefLen())
	for p := 1; p <= pv.RefLen(); p++ {
		b[p-1] = pv.QAt(p)
	}
	return string(b)
}
