package props

import (
	"fmt"
	"os"
	"path/filepath"
	"strings"
	"time"

	"verifharness/internal/fw"
	"verifharness/internal/gen"
)

type c18Spec struct {
	cmd, kind, file string
	positional      bool
}

var c18Specs []c18Spec

func init() {
	add := func(kind string, positional bool, pairs ...string) {
		for i := 0; i+1 < len(pairs); i += 2 {
			c18Specs = append(c18Specs, c18Spec{pairs[i], kind, pairs[i+1], positional})
		}
	}
	// a row far longer than the others (1.5 MiB: beyond any line buffer), in a later record
	add("unequal-length-huge", true, "variants", "msa", "snps", "query", "closest", "target", "closestn", "query", "list", "query", "toprank", "target")
	for _, k := range []string{"unequal-length-shorter", "unequal-length-longer", "unequal-length-empty"} {
		add(k, true, "variants", "msa", "variants-stdin", "msa", "snps", "query", "closest", "query", "closest", "target", "closestn", "query", "closestn", "target", "list", "query", "toprank", "query", "toprank", "target")
	}
	add("non-iupac", true, "variants", "msa", "variants-stdin", "msa", "snps", "query", "closest", "query", "closest", "target", "closestn", "target", "list", "query", "toprank", "query", "toprank", "target")
	add("non-iupac", false, "snps", "ref", "topa", "ref", "samvar", "ref", "list", "ref", "toprank", "ref")
	add("missing-file", false, "toma", "sam", "topa", "sam", "topa", "ref", "samvar", "sam", "samvar", "ref", "samvar", "anno", "variants", "msa", "variants", "anno", "snps", "ref", "snps", "query",
		"closest", "query", "closest", "target", "list", "ref", "list", "query", "toprank", "query", "toprank", "target", "toprank", "ref", "toprank-csv", "query", "toprank-csv", "target")
	add("empty-file", false, "toma", "sam", "topa", "sam", "samvar", "sam", "topa", "ref", "samvar", "ref", "variants", "msa", "variants-stdin", "msa", "snps", "ref", "snps", "query",
		"closest", "query", "closest", "target", "closestn", "query", "closestn", "target", "list", "ref", "list", "query", "toprank", "query", "toprank", "target", "toprank", "ref")
	add("header-only-file", false, "topa", "ref", "samvar", "ref", "variants", "msa", "variants-stdin", "msa", "snps", "ref", "snps", "query",
		"closest", "query", "closest", "target", "closestn", "query", "closestn", "target", "list", "ref", "list", "query", "toprank", "query", "toprank", "target", "toprank", "ref")
	add("headerless-sam", false, "toma", "sam", "topa", "sam", "samvar", "sam")
	for _, k := range []string{"ref-width-shorter", "ref-width-longer"} {
		add(k, false, "snps", "ref", "list", "ref", "toprank", "ref")
	}
	for _, k := range []string{"qt-width-narrower", "qt-width-wider"} {
		add(k, false, "closest", "target", "closest", "query", "closestn", "target", "closestn", "query")
	}
	add("multi-ref", false, "snps", "ref", "list", "ref", "toprank", "ref", "topa", "ref", "samvar", "ref")
	add("csv-empty", false, "toprank-csv", "query", "toprank-csv", "target")
	add("csv-bad-header", false, "toprank-csv", "query", "toprank-csv", "target")
	add("csv-extra-column", false, "toprank-csv", "query", "toprank-csv", "target")
	add("csv-malformed-row", true, "toprank-csv", "query", "toprank-csv", "target")
	// a query list with the header and no rows is accepted (header-only output); a bad --target
	// next to it is still a bad --target
	for _, k := range []string{"csv-empty", "csv-bad-header", "csv-extra-column"} {
		add(k, false, "toprank-csv-noquery", "target")
	}
	add("csv-malformed-row", true, "toprank-csv-noquery", "target")
	add("window-start-0", false, "toma", "", "topa", "")
	add("window-start-beyond", false, "toma", "", "topa", "")
	add("window-end-0", false, "toma", "", "topa", "")
	add("window-end-beyond", false, "toma", "", "topa", "")
	add("window-start-gt-end", false, "toma", "", "topa", "")
	for _, k := range []string{"window-start-0", "window-start-beyond", "window-end-0", "window-end-beyond", "window-start-gt-end"} {
		add(k+"+pad", false, "toma", "")
	}
	add("window-start-negative", true, "toma", "", "topa", "")
	add("window-end-negative", true, "toma", "", "topa", "")
	add("bad-suffix", false, "variants", "anno", "samvar", "anno")
	// the reference row is not in the annotation's coordinates: its length differs from the end of
	// the GFF's ##sequence-region (every row of the alignment lost or gained the same columns), with
	// the reference record named like the region's sequence or differently (MN908947.3 vs NC_045512.2)
	add("ref-length-vs-gff-region", true, "variants", "msa", "variants-stdin", "msa")
	add("no-size-option", false, "toprank", "", "toprank-csv", "")

	fw.Register(&fw.Property{
		ID:    "C18",
		Level: "fault_enumeration",
		Rule: "for each command a valid input bundle (generated per seed) is run once unchanged (must exit 0) and then once per corruption: every corruption kind the property lists (unequal row length, non-IUPAC symbol, missing file, empty file / empty SAM stream, header-less SAM, reference/alignment width mismatch, query/target width mismatch, two records in --reference, empty CSV, CSV with a wrong header, malformed CSV row, window start<1 / end>L / start>end, unknown annotation suffix, a reference whose length is not the end of the GFF's ##sequence-region, topranking without size/dist option) x position {first, middle, last record} x each input file of the command, through the race-built binary; the observed event is the exit status, stdout and (on watchdog expiry) the goroutine dump; " +
			"distinct non-trivial = distinct (command, corruption kind, input file, position) faults injected",
		Assumptions: []string{"a Go panic's exit status 2 counts as refusal (the property asks for a non-zero exit and no silent success)",
			"a header-less SAM file is judged for toMultiAlign, which needs the header; toPairAlign and sam variants neither document nor use it, there exit 0 is accepted iff the output equals the run with the header restored",
			"a watchdog expiry is a violation only if the goroutine dump shows a closed channel deadlock, otherwise inconclusive"},
		Exhaustive: true,
		MinNontriv: 100,
		Workers:    12,
		Cases: func(tier string) int {
			bundles := 2
			if tier == "thorough" {
				bundles = 60
			}
			return bundles * len(c18Specs) * 3
		},
		Run:         runC18,
		CaseTimeout: 180 * time.Second,
	})
}

type c18Bundle struct {
	W       int
	ref     gen.FastaRec
	msa     []gen.FastaRec // reference first
	queries []gen.FastaRec
	targets []gen.FastaRec
	sam     gen.SamFile
	anno    string
	suffix  string
}

func c18MakeBundle(r *fw.Rng, bundleNo int) c18Bundle {
	var b c18Bundle
	opts := gen.AnnoOpts{MaxFeats: 3, SplitCodons: true}
	// the annotation format alternates with the bundle number, so that two bundles (the quick tier)
	// cover both
	format := []string{"gb", "gff"}[bundleNo%2]
	ac := makeAnnoCase(r, false, format, "fasta", gen.VarProfile{PSub: 0.08, PAmbig: 0.2}, 1, opts)
	an := ac.an
	b.W = len(an.Ref)
	b.ref = gen.FastaRec{ID: an.RefName, Desc: an.RefName, Seq: an.Ref}
	vp := gen.VarProfile{PSub: 0.08, PAmbig: 0.2, MaxInsSites: 0}
	rows := gen.MakeVariantMSA(r, an.Ref, r.Range(5, 9), vp).Rows
	b.msa = append([]gen.FastaRec{b.ref}, rows...)
	b.queries = gen.MakeVariantMSA(r, an.Ref, r.Range(3, 5), vp).Rows
	b.targets = gen.MakeVariantMSA(r, an.Ref, r.Range(5, 9), vp).Rows
	for i := range b.queries {
		b.queries[i].ID = fmt.Sprintf("query%d", i)
		b.queries[i].Desc = b.queries[i].ID
	}
	for i := range b.targets {
		b.targets[i].ID = fmt.Sprintf("target%d", i)
		b.targets[i].Desc = b.targets[i].ID
	}
	pr := gen.DefaultSamProfile()
	pr.MaxQueries = 6
	b.sam = gen.MakeSam(r, an.Ref, pr)
	b.sam.Text = strings.ReplaceAll(b.sam.Text, "SN:"+b.sam.RefName+"\t", "SN:"+an.RefName+"\t")
	b.sam.Text = strings.ReplaceAll(b.sam.Text, "\t"+b.sam.RefName+"\t", "\t"+an.RefName+"\t")
	b.anno, b.suffix = ac.annoTxt, ac.format
	if ac.format == "gff" && !strings.Contains(ac.annoTxt, "##FASTA") {
		b.anno = gen.RenderGFF(r, an, true)
	}
	// the GFF bundle carries a ##sequence-region line (as the files NCBI and the repository ship do)
	for tries := 0; ac.format == "gff" && !strings.Contains(b.anno, "##sequence-region") && tries < 20; tries++ {
		b.anno = gen.RenderGFF(r, an, true)
	}
	return b
}

func posIndex(n, pos int) int {
	switch pos {
	case 0:
		return 0
	case 1:
		return n / 2
	}
	return n - 1
}

func runC18(c *fw.Ctx, idx int) fw.Result {
	var res fw.Result
	if c.BinRace == "" && c.Bin == "" {
		res.Inconclusive = append(res.Inconclusive, "no gofasta binary")
		return res
	}
	bin := c.BinRace
	if bin == "" {
		bin = c.Bin
	}
	nspec := len(c18Specs)
	bundleNo := idx / (nspec * 3)
	sp := c18Specs[(idx/3)%nspec]
	pos := idx % 3
	if !sp.positional && pos != 0 {
		res.Evals++ // position does not apply to this fault: nothing to run
		return res
	}
	r := fw.NewRng(c.Seed, "C18bundle", bundleNo)
	b := c18MakeBundle(r, bundleNo)
	d := filepath.Join(c.Tmp, fmt.Sprintf("c18-%d", idx))
	os.MkdirAll(d, 0755)
	defer os.RemoveAll(d)
	raceLog := filepath.Join(d, "race")
	env := []string{"GORACE=halt_on_error=0 atexit_sleep_ms=0 log_path=" + raceLog}

	// logical files
	listCSV := func(recs []gen.FastaRec) string {
		p1 := filepath.Join(d, "tmp_ref.fasta")
		p2 := filepath.Join(d, "tmp_aln.fasta")
		os.WriteFile(p1, []byte(gen.RenderFasta([]gen.FastaRec{b.ref}, 0)), 0644)
		os.WriteFile(p2, []byte(gen.RenderFasta(recs, 0)), 0644)
		br := fw.RunBin(bin, []string{"updown", "list", "-r", p1, "-q", p2}, nil, env, "", 60*time.Second)
		return string(br.Stdout)
	}
	files := map[string]string{}
	switch sp.cmd {
	case "toma":
		files["sam"] = b.sam.Text
	case "topa":
		files["sam"], files["ref"] = b.sam.Text, gen.RenderFasta([]gen.FastaRec{b.ref}, 60)
	case "samvar":
		files["sam"], files["ref"], files["anno"] = b.sam.Text, gen.RenderFasta([]gen.FastaRec{b.ref}, 60), b.anno
	case "variants", "variants-stdin":
		files["msa"], files["anno"] = gen.RenderFasta(b.msa, 60), b.anno
	case "snps", "list":
		files["ref"], files["query"] = gen.RenderFasta([]gen.FastaRec{b.ref}, 0), gen.RenderFasta(b.targets, 60)
	case "closest", "closestn":
		files["query"], files["target"] = gen.RenderFasta(b.queries, 60), gen.RenderFasta(b.targets, 0)
	case "toprank":
		files["ref"], files["query"], files["target"] = gen.RenderFasta([]gen.FastaRec{b.ref}, 0), gen.RenderFasta(b.queries, 0), gen.RenderFasta(b.targets, 60)
	case "toprank-csv":
		files["query"], files["target"] = listCSV(b.queries), listCSV(b.targets)
	case "toprank-csv-noquery":
		files["query"], files["target"] = strings.SplitAfter(listCSV(b.queries), "\n")[0], listCSV(b.targets)
	}
	recsOf := map[string][]gen.FastaRec{"msa": b.msa, "query": b.queries, "target": b.targets, "ref": {b.ref}}
	if sp.cmd == "snps" || sp.cmd == "list" {
		recsOf["query"] = b.targets
	}
	ext := map[string]string{"sam": ".sam", "ref": ".fasta", "msa": ".fasta", "query": ".fasta", "target": ".fasta", "anno": "." + b.suffix}
	if strings.HasPrefix(sp.cmd, "toprank-csv") {
		ext["query"], ext["target"] = ".csv", ".csv"
	}
	extra := []string{}
	refIDOverride := ""
	valid := map[string]string{}
	for k, v := range files {
		valid[k] = v
	}
	missing := ""
	// apply the corruption
	mutRec := func(f func(rc *gen.FastaRec)) {
		recs := append([]gen.FastaRec{}, recsOf[sp.file]...)
		i := posIndex(len(recs), pos)
		if sp.file == "msa" && pos == 0 && strings.HasPrefix(sp.kind, "unequal-length") {
			i = 1 // the first *query* row (row 0 is the reference and defines the width)
		}
		if sp.kind == "unequal-length-huge" && i == 0 && len(recs) > 1 {
			i = 1 // a later record: the records before it have been read and may have been written
		}
		if sp.kind == "unequal-length-empty" && i == len(recs)-1 && i > 0 {
			i-- // a header-only *last* record is an unspecified zone (DESIGN C16); first and middle are not
		}
		f(&recs[i])
		wrapW := []int{0, 60}[idx%2]
		if sp.kind == "unequal-length-huge" {
			wrapW = 0
		}
		files[sp.file] = gen.RenderFasta(recs, wrapW)
	}
	switch strings.TrimSuffix(sp.kind, "+pad") {
	case "unequal-length-huge":
		mutRec(func(rc *gen.FastaRec) { rc.Seq = strings.Repeat("A", 3<<19) })
	case "unequal-length-shorter", "unequal-length-longer", "unequal-length-empty":
		mutRec(func(rc *gen.FastaRec) {
			if sp.kind == "unequal-length-empty" && len(recsOf[sp.file]) > 1 {
				rc.Seq = "" // the row has lost its whole sequence: a header directly followed by the next header
			} else if sp.kind == "unequal-length-shorter" && len(rc.Seq) > 1 {
				rc.Seq = rc.Seq[:len(rc.Seq)-1]
			} else {
				rc.Seq += "A"
			}
		})
	case "non-iupac":
		mutRec(func(rc *gen.FastaRec) {
			s := []byte(rc.Seq)
			// letters outside the alphabet, digits, punctuation and control bytes (a carriage
			// return that is not part of a line end, 0x1F, NUL, DEL, a high-bit byte)
			bad := "JZ*0.x\r\x1f\x00\x7f\xe9_=@[`{,+/:;<!Uu EeOo"
			ch := bad[(idx+posIndex(len(bad), pos))%len(bad)]
			p := (idx * 7) % len(s)
			if ch == '\r' {
				// at the end of a (wrapped) line a CR would just make a CRLF line end, which is legal
				for p%60 == 59 || p == len(s)-1 {
					p--
				}
				if p < 0 {
					p, ch = 0, 'J'
				}
			}
			s[p] = ch
			rc.Seq = string(s)
			if (idx/3)%4 == 3 {
				// a letter outside ASCII, as valid UTF-8: its code point's low byte is an IUPAC letter
				// (a decoder that ranges over runes and truncates would take it for a base)
				u := []string{"\u0143", "\u0141", "\u012d", "\u4e41", "\u0147", "\u0154"}[(idx/12)%6]
				rc.Seq = string(s[:p]) + u + string(s[p+1:])
			}
		})
	case "missing-file":
		missing = sp.file
	case "empty-file":
		files[sp.file] = ""
	case "header-only-file":
		// a FASTA file with a header line and no sequence at all
		files[sp.file] = []string{">only_a_header\n", ">only_a_header", ">only_a_header some description\n\n"}[idx%3]
	case "headerless-sam":
		var sb strings.Builder
		for _, l := range strings.Split(files["sam"], "\n") {
			if !strings.HasPrefix(l, "@") && l != "" {
				sb.WriteString(l + "\n")
			}
		}
		files["sam"] = sb.String()
	case "ref-width-shorter", "ref-width-longer":
		rc := b.ref
		if sp.kind == "ref-width-shorter" {
			rc.Seq = rc.Seq[:len(rc.Seq)-1]
		} else {
			rc.Seq += "ACG"
		}
		files["ref"] = gen.RenderFasta([]gen.FastaRec{rc}, 0)
	case "qt-width-narrower", "qt-width-wider":
		recs := append([]gen.FastaRec{}, recsOf[sp.file]...)
		for i := range recs {
			if sp.kind == "qt-width-narrower" && len(recs[i].Seq) > 3 {
				recs[i].Seq = recs[i].Seq[:len(recs[i].Seq)-2]
			} else {
				recs[i].Seq += "AC"
			}
		}
		files[sp.file] = gen.RenderFasta(recs, 0)
	case "multi-ref":
		second := b.ref
		second.ID, second.Desc = "second_reference", "second_reference"
		files["ref"] = gen.RenderFasta([]gen.FastaRec{b.ref, second}, 0)
	case "csv-empty":
		files[sp.file] = ""
	case "csv-bad-header":
		lines := strings.SplitN(files[sp.file], "\n", 2)
		files[sp.file] = "name,mutations,ambiguities,SNPcount,ambcount\n" + lines[1]
	case "csv-extra-column":
		// some other table that happens to start with the five columns of a list
		lines := strings.Split(strings.TrimSuffix(files[sp.file], "\n"), "\n")
		for i := range lines {
			if i == 0 {
				lines[i] += []string{",lineage", ",", ",note,date"}[idx%3]
			} else {
				lines[i] += []string{",B.1.1.7", ",", ",x,2021-01-01"}[idx%3]
			}
		}
		files[sp.file] = strings.Join(lines, "\n") + "\n"
	case "csv-malformed-row":
		lines := strings.Split(strings.TrimSuffix(files[sp.file], "\n"), "\n")
		i := 1 + posIndex(len(lines)-1, pos)
		f := strings.Split(lines[i], ",")
		switch idx % 3 {
		case 0:
			lines[i] = strings.Join(f[:3], ",") // too few fields
		case 1:
			f[4] = "many"
			lines[i] = strings.Join(f, ",")
		default:
			f[2] = "12-x"
			lines[i] = strings.Join(f, ",")
		}
		files[sp.file] = strings.Join(lines, "\n") + "\n"
	case "window-start-0":
		extra = []string{"--start", "0"}
	case "window-start-beyond":
		extra = []string{"--start", fmt.Sprint(b.W + 1)}
	case "window-end-0":
		extra = []string{"--end", "0"}
	case "window-end-beyond":
		extra = []string{"--end", fmt.Sprint(b.W + 1 + idx%3)}
	case "window-start-negative":
		// -1 is the flag's "unset" default and not judged
		extra = []string{fmt.Sprintf("--start=%d", []int{-2, -3, -b.W, -1000}[(idx+posIndex(4, pos))%4])}
	case "window-end-negative":
		extra = []string{fmt.Sprintf("--end=%d", []int{-2, -7, -b.W - 1, -1 << 31}[(idx+posIndex(4, pos))%4])}
	case "window-start-gt-end":
		s := 2 + idx%3
		if s > b.W {
			s = b.W
		}
		extra = []string{"--start", fmt.Sprint(s), "--end", fmt.Sprint(s - 1)}
	case "bad-suffix":
		ext["anno"] = []string{".txt", ".gbk", ".gff3", ""}[idx%4]
	case "ref-length-vs-gff-region":
		if b.suffix != "gff" || !strings.Contains(b.anno, "##sequence-region") {
			res.Count("cases_not_applicable_to_this_bundle", 1)
			res.Evals++
			return res
		}
		recs := append([]gen.FastaRec{}, b.msa...)
		k := []int{1, 5, 33}[pos%3]
		for i := range recs {
			if idx%2 == 0 && len(recs[i].Seq) > k+3 {
				recs[i].Seq = recs[i].Seq[:len(recs[i].Seq)-k]
			} else {
				recs[i].Seq += strings.Repeat("A", k)
			}
		}
		if (idx/2)%2 == 0 {
			refIDOverride = b.ref.ID + "_as_named_in_the_alignment"
			recs[0].ID, recs[0].Desc = refIDOverride, refIDOverride
		}
		files["msa"] = gen.RenderFasta(recs, []int{0, 60}[idx%2])
	}
	if strings.HasSuffix(sp.kind, "+pad") {
		// an out-of-range window is refused whether or not the outside is to be padded
		extra = append(extra, "--pad")
	}
	path := func(k string, content map[string]string) string {
		p := filepath.Join(d, k+ext[k])
		if k == missing {
			return filepath.Join(d, "does_not_exist"+ext[k])
		}
		os.WriteFile(p, []byte(content[k]), 0644)
		return p
	}
	argsFor := func(content map[string]string, withExtra bool) ([]string, []byte) {
		var a []string
		var stdin []byte
		switch sp.cmd {
		case "toma":
			a = []string{"sam", "toMultiAlign", "-s", path("sam", content), "-t", "2"}
		case "topa":
			a = []string{"sam", "toPairAlign", "-s", path("sam", content), "-r", path("ref", content), "-o", "stdout", "-t", "2"}
		case "samvar":
			a = []string{"sam", "variants", "-s", path("sam", content), "-r", path("ref", content), "-a", path("anno", content), "-t", "2"}
		case "variants":
			rid := b.ref.ID
			if withExtra && refIDOverride != "" {
				rid = refIDOverride
			}
			a = []string{"variants", "--msa", path("msa", content), "-r", rid, "-a", path("anno", content), "-t", "2"}
		case "variants-stdin":
			rid := b.ref.ID
			if withExtra && refIDOverride != "" {
				rid = refIDOverride
			}
			a = []string{"variants", "-r", rid, "-a", path("anno", content), "-t", "2"}
			stdin = []byte(content["msa"])
		case "snps":
			a = []string{"snps", "-r", path("ref", content), "-q", path("query", content)}
		case "list":
			a = []string{"updown", "list", "-r", path("ref", content), "-q", path("query", content)}
		case "closest":
			a = []string{"closest", "--query", path("query", content), "--target", path("target", content), "-t", "2"}
		case "closestn":
			a = []string{"closest", "--query", path("query", content), "--target", path("target", content), "-n", "2", "--table"}
		case "toprank":
			a = []string{"updown", "topranking", "-r", path("ref", content), "-q", path("query", content), "-t", path("target", content)}
		case "toprank-csv", "toprank-csv-noquery":
			a = []string{"updown", "topranking", "-q", path("query", content), "-t", path("target", content)}
		}
		if strings.HasPrefix(sp.cmd, "toprank") && !(withExtra && sp.kind == "no-size-option") {
			a = append(a, "--size-total", "5")
		}
		// the command's other modes: which stage meets the bad input depends on them
		var modes [][]string
		switch sp.cmd {
		case "toma":
			modes = [][]string{{}, {"--wrap", "7"}}
		case "topa":
			modes = [][]string{{}, {"--skip-insertions"}, {"--omit-reference"}, {"--wrap", "9"}}
		case "samvar", "variants", "variants-stdin":
			modes = [][]string{{}, {"--aggregate"}, {"--append-snps"}, {"--aggregate", "--threshold", "0.5"}}
		case "snps":
			modes = [][]string{{}, {"--aggregate"}, {"--hard-gaps"}}
		case "closest":
			modes = [][]string{{}, {"-m", "snp"}, {"-m", "tn93"}}
		case "closestn":
			modes = [][]string{{}, {"-m", "snp"}, {"-d", "1000"}}
		case "toprank", "toprank-csv", "toprank-csv-noquery":
			modes = [][]string{{}, {"--table"}, {"--no-fill"}}
		}
		if len(modes) > 0 {
			a = append(a, modes[fw.Mix(uint64(idx)*31+7)%uint64(len(modes))]...)
		}
		if withExtra {
			a = append(a, extra...)
		}
		return a, stdin
	}
	// baseline: the valid bundle must be accepted
	saveMissing, saveExt := missing, ext["anno"]
	missing = ""
	ext["anno"] = "." + b.suffix
	va, vin := argsFor(valid, false)
	if stdinEmpty := vin == nil && sp.cmd == "variants-stdin"; stdinEmpty {
		vin = []byte{}
	}
	base := fw.RunBin(bin, va, vin, env, "", 60*time.Second)
	res.Evals++
	if base.TimedOut || base.Exit != 0 {
		res.Inconclusive = append(res.Inconclusive, fmt.Sprintf("valid bundle for %s was not accepted (exit %d): %s", sp.cmd, base.Exit, clipStr(string(base.Stderr), 200)))
		return res
	}
	missing, ext["anno"] = saveMissing, saveExt
	ca, cin := argsFor(files, true)
	if sp.cmd == "variants-stdin" && cin == nil {
		cin = []byte{}
	}
	// the same corrupted run with the output going to a file instead of stdout: the exit
	// status must not depend on the output destination
	if sp.cmd != "topa" {
		outFile := filepath.Join(d, "result.out")
		cf := append(append([]string{}, ca...), "-o", outFile)
		bf := fw.RunBin(bin, cf, cin, env, "", 20*time.Second)
		res.Evals++
		res.Count("faults_injected_with_output_file", 1)
		if !bf.TimedOut && bf.Exit == 0 {
			ob, _ := os.ReadFile(outFile)
			okHeaderless := sp.kind == "headerless-sam" && sp.cmd != "toma" && string(ob) == string(base.Stdout)
			if !okHeaderless {
				cls := sp.cmd + ":" + sp.kind
				if sp.file != "" {
					cls += ":" + sp.file
				}
				wf0 := map[string]string{"stderr.txt": clipStr(string(bf.Stderr), 20000), "output_file.txt": clipStr(string(ob), 4000)}
				for k, v := range files {
					wf0["input_"+k+ext[k]] = v
				}
				res.Fail(cls+":accepted-with-output-file", fmt.Sprintf("%v: exit status 0 on an input made invalid by %q when the output goes to a file (%d bytes written)", cf, sp.kind, len(ob)), wf0, cf)
			}
		}
	}
	br := fw.RunBin(bin, ca, cin, env, "", 20*time.Second)
	res.Evals++
	res.Count("faults_injected", 1)
	res.Sig(fmt.Sprintf("%s|%s|%s|%d", sp.cmd, sp.kind, sp.file, pos))
	class := sp.cmd + ":" + sp.kind
	if sp.file != "" {
		class += ":" + sp.file
	}
	wf := map[string]string{"stdout.txt": clipStr(string(br.Stdout), 4000), "stderr.txt": clipStr(string(br.Stderr), 20000)}
	for k, v := range files {
		wf["input_"+k+ext[k]] = v
	}
	switch {
	case br.TimedOut:
		verdict := fw.AnalyseDump(br.Dump)
		res.Count("watchdog_expiries", 1)
		if verdict == "deadlock" {
			// reproduce twice in fresh processes before calling it a violation
			again := 0
			for k := 0; k < 2; k++ {
				b2 := fw.RunBin(bin, ca, cin, env, "", 20*time.Second)
				res.Evals++
				if b2.TimedOut && fw.AnalyseDump(b2.Dump) == "deadlock" {
					again++
				}
			}
			if again == 2 {
				wf["goroutines.txt"] = clipStr(br.Dump, 30000)
				res.Fail(class+":deadlock", fmt.Sprintf("%v: the command never terminates: every goroutine running gofasta code is blocked on a channel operation (reproduced in 3 fresh processes)", ca), wf, ca)
			} else {
				res.Inconclusive = append(res.Inconclusive, "deadlock verdict not reproduced")
			}
		} else {
			res.Inconclusive = append(res.Inconclusive, "watchdog fired, dump verdict "+verdict)
		}
	case br.Exit == 0:
		accepted := false
		if sp.kind == "headerless-sam" && sp.cmd != "toma" && string(br.Stdout) == string(base.Stdout) {
			accepted = true
			res.Count("headerless_sam_full_output_accepted", 1)
		}
		if !accepted {
			res.Fail(class+":accepted", fmt.Sprintf("%v: exit status 0 on an input made invalid by %q (%d bytes on stdout)", ca, sp.kind, len(br.Stdout)), wf, ca)
		}
	default:
		res.Count("faults_refused", 1)
		if br.Exit == 2 && strings.Contains(string(br.Stderr), "panic:") {
			res.Count("faults_refused_by_panic", 1)
			res.AddSet("refused_by_panic", class)
		}
	}
	if logs, _ := filepath.Glob(raceLog + ".*"); len(logs) > 0 {
		for _, lf := range logs {
			bb, _ := os.ReadFile(lf)
			if strings.Contains(string(bb), "WARNING: DATA RACE") {
				res.Count("race_reports_while_refusing", 1)
			}
		}
	}
	if idx < 3 {
		res.Sample = map[string]interface{}{"argv": ca, "fault": sp.kind, "file": sp.file, "exit": br.Exit, "stderr": clipStr(string(br.Stderr), 300)}
	}
	return res
}
