package props

import (
	"strings"
	"testing"

	"verifharness/internal/fw"
)

// FuzzFastaReaders is the native coverage-guided fuzz target of C16: any byte
// stream must be read or rejected by every reader without a panic or a hang,
// and the readers must agree whenever none of them errs. It is run by the C16
// check with a fixed execution budget (-fuzztime=<N>x).
func FuzzFastaReaders(f *testing.F) {
	for i := 0; i < 24; i++ {
		r := fw.NewRng(uint64(i+1), "fuzzseed", i)
		recs := canonicalAlignment(r)
		if len(recs[0].Seq) > 80 {
			continue
		}
		f.Add([]byte(layOut(r, recs, layoutOpts{width: []int{0, 7, 60}[i%3], crlf: i % 3, lower: 0.2, blanks: i % 5})))
	}
	f.Add([]byte(">a\nACGT\n>b\nAC-T\n"))
	f.Add([]byte(">\nACGT\n"))
	f.Add([]byte(""))
	f.Fuzz(func(t *testing.T, data []byte) {
		if len(data) > 1<<16 {
			return
		}
		outs := []c16Out{c16Plain(data), c16Enc(data, false), c16Enc(data, true), c16List(data)}
		allOK := true
		for _, o := range outs {
			if o.err != nil {
				allOK = false
			}
		}
		if allOK {
			for ri := 1; ri < len(outs); ri++ {
				a, b := outs[0].recs, outs[ri].recs
				if len(a) != len(b) {
					t.Fatalf("readers disagree on the number of records: %d vs %d", len(a), len(b))
				}
				for k := range a {
					if a[k].ID != b[k].ID || a[k].Desc != b[k].Desc || a[k].Idx != b[k].Idx || strings.ToUpper(a[k].Seq) != b[k].Seq {
						t.Fatalf("readers disagree on record %d", k)
					}
				}
			}
		}
		// fifth reader: findReference + streaming reader through variants
		id := "x"
		if len(outs[3].recs) > 0 {
			id = outs[3].recs[0].ID
		}
		c16Variants(data, id, 4)
	})
}
