package props

import (
	"fmt"
	"os"
	"path/filepath"
	"strings"
	"time"

	"verifharness/internal/fw"
	"verifharness/internal/gen"
	"verifharness/internal/model"
	"verifharness/internal/run"
)

func init() {
	fw.Register(&fw.Property{
		ID:         "C11",
		Level:      "exploration",
		Jitter:     true,
		RaceSample: true,
		Rule: "SAM files (multi-record queries, insertions, deletions, skips, clips) with GenBank or GFF3 annotations; three observed runs of real code per case: R1 = sam variants; R2 = variants on each reference/query pair written by sam toPairAlign; R3 (queries without insertions) = variants on the reference plus the sam toMultiAlign --pad rows; options --append-snps, --start/--end, reference from a file or from the annotation; " +
			"distinct non-trivial = distinct (annotation format, max records per query, has insertion, has deletion, window, append-snps, reference source) of cases with at least one mutation",
		Assumptions: []string{"the un-padded toMultiAlign row is not used: its '-' flank convention is a different alignment from the one sam variants sees ('N' for uncovered positions)",
			"records sharing a position are compared as multisets"},
		MinNontriv: 30,
		Cases: func(tier string) int {
			if tier == "thorough" {
				return 100000
			}
			return 1500
		},
		Run: runC11,
	})
}

func runC11(c *fw.Ctx, idx int) fw.Result {
	var res fw.Result
	r := fw.NewRng(c.Seed, "C11", idx)
	format := []string{"gb", "gff"}[r.Intn(2)]
	opts := gen.AnnoOpts{MaxFeats: 4, AllowUnnamed: true, AllowSlip: true, SplitCodons: true, SamConflicts: true, Rotate: true, NoStop: true, AllNQuery: true}
	vp := gen.DefaultVarProfile()
	nqMax := 6
	if idx%300 == 5 && (!c.Thorough() || idx%3000 == 5) {
		// a genome wider than 64 KiB: the pairwise rows are single lines longer than a default
		// scanner buffer
		opts.GenomeLen = r.Range(65600, 70000)
		vp.PSub, vp.PAmbig = 0.0005, 0.0002
		nqMax = 2
		res.Count("cases_with_genome_wider_than_64KiB", 1)
	}
	ac := makeAnnoCase(r, c.Thorough(), format, "sam", vp, nqMax, opts)
	L := len(ac.an.Ref)
	appendSNP := r.Chance(0.5)
	s, e := -1, -1
	wk := "none"
	switch r.Intn(6) {
	case 0, 1:
		s = r.Range(1, L)
		e = r.Range(s, L)
		wk = "both"
	case 2:
		s = r.Range(1, L)
		wk = "start"
	case 3:
		e = r.Range(1, L)
		wk = "end"
	}
	threads := pickThreads(r)
	out1, err1 := ac.runVariants(s, e, false, 0, appendSNP, threads)
	res.Evals++
	files := ac.files()
	files["observed_sam_variants.csv"] = out1
	argv := ac.argv(fmt.Sprintf("--append-snps=%v", appendSNP), fmt.Sprintf("--start=%d", s), fmt.Sprintf("--end=%d", e))
	if err1 != nil {
		res.Fail("error-on-valid-input", "sam variants failed on valid input: "+err1.Error(), files, argv)
		return res
	}
	if idx%15 == 12 {
		// the same sam variants run through the command-line layer
		ac.binVariants(c, &res, idx, s, e, false, 0, appendSNP, threads, out1)
	}
	n1, m1, ok := model.ParseVariantsCSV(out1)
	if !ok || len(n1) != len(ac.sf.Queries) {
		res.Fail("rows", "sam variants output rows do not match the queries", files, argv)
		return res
	}
	// R2: toPairAlign -> variants
	dir := filepath.Join(c.Tmp, fmt.Sprintf("c11-%d", idx))
	pairs, errp := run.ToPairAlignDir(ac.sf.Text, ac.refTxt, dir, -1, -1, -1, false, false, threads)
	res.Evals++
	if errp != nil {
		res.Fail("error-on-valid-input", "sam toPairAlign failed on valid input: "+errp.Error(), files, argv)
		return res
	}
	anyMut, anyIns, anyDel := false, false, false
	maxRecs := 0
	for qi, q := range ac.sf.Queries {
		if len(q.Recs) > maxRecs {
			maxRecs = len(q.Recs)
		}
		if len(m1[qi]) > 0 {
			anyMut = true
		}
		text, okf := pairs[strings.ReplaceAll(q.Name, "/", "_")+".fasta"]
		if !okf {
			res.Fail("pair-file-missing", "toPairAlign wrote no file for "+q.Name, files, argv)
			continue
		}
		out2, err2 := run.Variants(text, ac.sf.RefName, ac.annoTxt, ac.format, s, e, false, 0, appendSNP, 1)
		res.Evals++
		if err2 != nil {
			files["pair.fasta"] = text
			res.Fail("error-on-valid-input", "variants failed on the toPairAlign output: "+err2.Error(), files, argv)
			continue
		}
		_, m2, ok2 := model.ParseVariantsCSV(out2)
		if !ok2 || len(m2) != 1 {
			files["pair.fasta"] = text
			files["observed_variants_on_pair.csv"] = out2
			res.Fail("rows", "variants on the toPairAlign output did not give one row", files, argv)
			continue
		}
		if qi == 0 && idx%10 == 4 && c.Bin != "" && (s != -1 || e != -1) {
			c11BinaryWindowSpelling(c, &res, ac, idx, qi, text, s, e, appendSNP)
		}
		a, b := model.SortedStrings(mutStrings(m1[qi])), model.SortedStrings(mutStrings(m2[0]))
		res.Count("pair_relations_checked", 1)
		if strings.Join(a, "|") != strings.Join(b, "|") {
			files["pair.fasta"] = text
			files["observed_variants_on_pair.csv"] = out2
			res.Fail("sam-vs-pair", fmt.Sprintf("query %s: sam variants gives %v, variants on the toPairAlign pair gives %v", q.Name, mutStrings(m1[qi]), mutStrings(m2[0])), files, argv)
		}
		for _, m := range m1[qi] {
			if m.Kind == "ins" {
				anyIns = true
			}
			if m.Kind == "del" {
				anyDel = true
			}
		}
	}
	// R3: toMultiAlign --pad rows + reference
	padOut, errm := run.ToMultiAlign(ac.sf.Text, -1, -1, -1, true, 1)
	res.Evals++
	if errm != nil {
		res.Fail("error-on-valid-input", "sam toMultiAlign failed on valid input: "+errm.Error(), files, argv)
		return res
	}
	msa := ">" + ac.sf.RefName + "\n" + ac.an.Ref + "\n" + padOut
	out3, err3 := run.Variants(msa, ac.sf.RefName, ac.annoTxt, ac.format, s, e, false, 0, appendSNP, threads)
	res.Evals++
	if err3 != nil {
		files["multialign.fasta"] = msa
		res.Fail("error-on-valid-input", "variants failed on the toMultiAlign output: "+err3.Error(), files, argv)
		return res
	}
	_, m3, ok3 := model.ParseVariantsCSV(out3)
	if ok3 && len(m3) == len(ac.sf.Queries) {
		for qi, q := range ac.sf.Queries {
			_, _, nIns := model.PairAlign(q, ac.an.Ref)
			if nIns > 0 {
				continue
			}
			a, b := model.SortedStrings(mutStrings(m1[qi])), model.SortedStrings(mutStrings(m3[qi]))
			res.Count("multialign_relations_checked", 1)
			if strings.Join(a, "|") != strings.Join(b, "|") {
				files["multialign.fasta"] = msa
				files["observed_variants_on_multialign.csv"] = out3
				res.Fail("sam-vs-multialign", fmt.Sprintf("query %s (no insertions): sam variants gives %v, variants on the toMultiAlign --pad row gives %v", q.Name, mutStrings(m1[qi]), mutStrings(m3[qi])), files, argv)
			}
		}
	} else {
		files["multialign.fasta"] = msa
		files["observed_variants_on_multialign.csv"] = out3
		res.Fail("rows", "variants on the toMultiAlign alignment did not give one row per query", files, argv)
	}
	if anyMut {
		res.Sig(fmt.Sprintf("%s|%d|%v|%v|%s|%v|%v", format, maxRecs, anyIns, anyDel, wk, appendSNP, ac.refFile))
	}
	if idx < 2 {
		res.Sample = map[string]interface{}{"sam": clipStr(ac.sf.Text, 900), "argv": argv, "observed_sam_variants": clipStr(out1, 500)}
	}
	return res
}

// c11BinaryWindowSpelling runs both commands of the relation through the binary with the window
// bounds written the way the flag parser also accepts them (octal with a leading zero, hex, an
// explicit plus sign). Whatever such a spelling is taken to mean, it is the same text for both
// commands: if both accept it, their mutation lists for the query must agree.
func c11BinaryWindowSpelling(c *fw.Ctx, res *fw.Result, ac annoCase, idx, qi int, pair string, s, e int, appendSNP bool) {
	d := filepath.Join(c.Tmp, fmt.Sprintf("c11-spell-%d", idx))
	os.MkdirAll(d, 0755)
	defer os.RemoveAll(d)
	w := func(n, t string) string { p := filepath.Join(d, n); os.WriteFile(p, []byte(t), 0644); return p }
	kind := fw.Mix(uint64(idx)+1111) % 3
	sp := func(n int) string {
		switch kind {
		case 0:
			return fmt.Sprintf("0%o", n)
		case 1:
			return fmt.Sprintf("0x%x", n)
		}
		return fmt.Sprintf("+%d", n)
	}
	anno := w("anno."+ac.format, ac.annoTxt)
	a1 := []string{"sam", "variants", "-s", w("in.sam", ac.sf.Text), "-a", anno}
	if ac.refFile {
		a1 = append(a1, "-r", w("ref.fasta", ac.refTxt))
	}
	a2 := []string{"variants", "--msa", w("pair.fasta", pair), "-r", ac.sf.RefName, "-a", anno}
	var win []string
	if s != -1 {
		win = append(win, "--start", sp(s))
	}
	if e != -1 {
		win = append(win, "--end", sp(e))
	}
	if appendSNP {
		win = append(win, "--append-snps")
	}
	a1, a2 = append(a1, win...), append(a2, win...)
	b1 := fw.RunBin(c.Bin, a1, nil, nil, d, 40*time.Second)
	b2 := fw.RunBin(c.Bin, a2, nil, nil, d, 40*time.Second)
	res.Evals += 2
	if b1.TimedOut || b2.TimedOut {
		res.Inconclusive = append(res.Inconclusive, "binary watchdog fired (window spelling)")
		return
	}
	if b1.Exit != 0 || b2.Exit != 0 {
		res.Count("window_spelling_runs_refused_by_a_command", 1)
		if (b1.Exit == 0) != (b2.Exit == 0) {
			res.Count("window_spelling_runs_refused_by_one_command_only", 1)
		}
		return
	}
	_, m1, ok1 := model.ParseVariantsCSV(string(b1.Stdout))
	_, m2, ok2 := model.ParseVariantsCSV(string(b2.Stdout))
	if !ok1 || !ok2 || qi >= len(m1) || len(m2) != 1 {
		return
	}
	res.Count("window_spelling_relations_checked", 1)
	x, y := model.SortedStrings(mutStrings(m1[qi])), model.SortedStrings(mutStrings(m2[0]))
	if strings.Join(x, "|") != strings.Join(y, "|") {
		f := ac.files()
		f["pair.fasta"] = pair
		f["binary_sam_variants.csv"] = string(b1.Stdout)
		f["binary_variants_on_pair.csv"] = string(b2.Stdout)
		res.Fail("sam-vs-pair:window-spelling", fmt.Sprintf("with the window written as %v both commands succeed but disagree: sam variants gives %v, variants on the toPairAlign pair gives %v", win, x, y), f, a1)
	}
}
