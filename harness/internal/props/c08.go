package props

import (
	"fmt"
	"math"
	"sort"
	"strconv"
	"strings"

	"verifharness/internal/fw"
	"verifharness/internal/gen"
	"verifharness/internal/model"
	"verifharness/internal/run"
)

func init() {
	fw.Register(&fw.Property{
		ID:         "C08",
		Level:      "exploration",
		Jitter:     true,
		RaceSample: true,
		Rule: "(a) bounded-exhaustive grid: bin supplies (same,up,down,side) in {0..3}^4 realised by constructed targets with distinct and deliberately tied (distance, ambiguity) keys, x requested sizes in {0..3}^4 minus 0000 via --size-*, x --no-fill, plus --size-total 1..14 (quick samples the request axis, thorough runs all 130560 points); (b) random tie-rich inputs with shared SNPs, multiple hits and ambiguity tracts under --size-total/--size-*, --no-fill, --dist-all/-up/-down/-side, --dist-push, --threshold-pair, --threshold-target, --ignore, --table; " +
			"distinct non-trivial = distinct grid points (supply, request, no-fill) plus distinct (mode, bins non-empty, threshold bound, dist bound, tie kinds, multiple hit, push k) tuples of random cases",
		Assumptions: []string{"the proportion used by --threshold-pair is the help text's: ambiguous consequential sites / (query-only + shared + target-only + ambiguous), evaluated in float32",
			"'evenly' is read as: extras e_i beyond min(requested, available) satisfy e_i > e_j + 1 only if bin j is exhausted; which bin is served first is free",
			"--dist-all overrides --dist-up/-down/-side and --size-total overrides --size-* (as the flag help says); combining --dist-push with size/dist flags is not judged"},
		MinNontriv: 200,
		Cases: func(tier string) int {
			if tier == "thorough" {
				return 256 + 300000
			}
			return 256 + 2500
		},
		Run: runC08,
	})
}

type udCand struct {
	name string
	idx  int
	dist int
	amb  int
}

type udOpts = run.TopRankingOpts

// udExpected computes, per query, the ordered candidate list of each bin.
func udCandidates(in gen.UpdownInput, q gen.FastaRec, o udOpts, distLimit [4]int) [4][]udCand {
	var bins [4][]udCand
	ign := map[string]bool{}
	for _, n := range o.Ignore {
		ign[n] = true
	}
	for ti, t := range in.Targets {
		amb := model.AmbCount(t.Seq)
		if amb > o.ThreshTarget || ign[t.ID] {
			continue
		}
		u := model.UpdownRelation(in.Ref, q.Seq, t.Seq)
		if !u.PassesPairThreshold(o.ThreshPair) {
			continue
		}
		if u.Dist > distLimit[u.Dir] {
			continue
		}
		bins[u.Dir] = append(bins[u.Dir], udCand{t.ID, ti, u.Dist, amb})
	}
	for b := range bins {
		sort.SliceStable(bins[b], func(i, j int) bool {
			x, y := bins[b][i], bins[b][j]
			if x.dist != y.dist {
				return x.dist < y.dist
			}
			if x.amb != y.amb {
				return x.amb < y.amb
			}
			return x.idx < y.idx
		})
	}
	return bins
}

// parseTopRanking parses list or table output into per-query bins of names
// (and distances for the table form).
func parseTopRanking(out string, table bool, queries []gen.FastaRec) ([][4][]string, [][4][]int, string) {
	lines := strings.Split(strings.TrimSuffix(out, "\n"), "\n")
	names := make([][4][]string, len(queries))
	dists := make([][4][]int, len(queries))
	qi := map[string]int{}
	for i, q := range queries {
		qi[q.ID] = i
	}
	if table {
		if lines[0] != "query,direction,distance,target" {
			return nil, nil, "bad table header: " + lines[0]
		}
		dirIdx := map[string]int{"same": 0, "up": 1, "down": 2, "side": 3}
		lastQ, lastD := -1, -1
		for _, l := range lines[1:] {
			f := strings.Split(l, ",")
			if len(f) != 4 {
				return nil, nil, "bad table row: " + l
			}
			q, ok := qi[f[0]]
			d, ok2 := dirIdx[f[1]]
			dist, err := strconv.Atoi(f[2])
			if !ok || !ok2 || err != nil {
				return nil, nil, "bad table row: " + l
			}
			if q < lastQ || (q == lastQ && d < lastD) {
				return nil, nil, "table rows are not in query-file order / same,up,down,side order at: " + l
			}
			lastQ, lastD = q, d
			names[q][d] = append(names[q][d], f[3])
			dists[q][d] = append(dists[q][d], dist)
		}
		return names, dists, ""
	}
	if lines[0] != "query,closestsame,closestup,closestdown,closestside" {
		return nil, nil, "bad header: " + lines[0]
	}
	if len(lines) != len(queries)+1 {
		return nil, nil, fmt.Sprintf("expected one row per query (%d), found %d", len(queries), len(lines)-1)
	}
	for i, l := range lines[1:] {
		f := strings.Split(l, ",")
		if len(f) != 5 || f[0] != queries[i].ID {
			return nil, nil, fmt.Sprintf("row %d is %q: rows must follow query-file order", i, l)
		}
		for b := 0; b < 4; b++ {
			if f[b+1] != "" {
				names[i][b] = strings.Split(f[b+1], ";")
			}
		}
	}
	return names, nil, ""
}

// checkTopRanking applies the property to one observed run. mode: "size",
// "dist", "push".
func checkTopRanking(res *fw.Result, in gen.UpdownInput, o udOpts, out string, files map[string]string, argv []string, classPrefix string) (boundFlags map[string]bool) {
	boundFlags = map[string]bool{}
	names, dists, perr := parseTopRanking(out, o.Table, in.Queries)
	if perr != "" {
		res.Fail(classPrefix+"output-format", perr, files, argv)
		return
	}
	// option semantics (sizes / distance limits) as documented
	var req [4]int // same, up, down, side
	sizeMode := false
	total := math.MaxInt32
	switch {
	case o.SizeTotal > 0:
		q := o.SizeTotal / 4
		req = [4]int{o.SizeTotal - 3*q, q, q, q}
		total = o.SizeTotal
		sizeMode = true
	case o.SizeSame != 0 || o.SizeUp != 0 || o.SizeDown != 0 || o.SizeSide != 0:
		req = [4]int{o.SizeSame, o.SizeUp, o.SizeDown, o.SizeSide}
		total = req[0] + req[1] + req[2] + req[3]
		sizeMode = true
	}
	distLimit := [4]int{math.MaxInt32, math.MaxInt32, math.MaxInt32, math.MaxInt32}
	if o.DistPush == 0 {
		switch {
		case o.DistAll > 0:
			distLimit = [4]int{0, o.DistAll, o.DistAll, o.DistAll}
		case o.DistUp != 0 || o.DistDown != 0 || o.DistSide != 0:
			distLimit = [4]int{0, o.DistUp, o.DistDown, o.DistSide}
		}
	}
	binName := []string{"same", "up", "down", "side"}
	for qi, q := range in.Queries {
		cands := udCandidates(in, q, o, distLimit)
		unl := udCandidates(in, q, udOpts{ThreshPair: 2, ThreshTarget: math.MaxInt32}, [4]int{math.MaxInt32, math.MaxInt32, math.MaxInt32, math.MaxInt32})
		for b := 0; b < 4; b++ {
			if len(unl[b]) > len(cands[b]) {
				boundFlags["filter"] = true
			}
		}
		res.Count("query_evaluations", 1)
		var size [4]int
		bad := false
		for b := 0; b < 4 && !bad; b++ {
			obs := names[qi][b]
			size[b] = len(obs)
			cl := cands[b]
			if o.DistPush > 0 && b > 0 {
				// exactly the candidates at the k smallest occurring distances
				var ds []int
				for _, c := range cl {
					if len(ds) == 0 || ds[len(ds)-1] != c.dist {
						ds = append(ds, c.dist)
					}
				}
				if len(ds) > o.DistPush {
					boundFlags["push"] = true
					lim := ds[o.DistPush-1]
					var k []udCand
					for _, c := range cl {
						if c.dist <= lim {
							k = append(k, c)
						}
					}
					cl = k
				}
				if len(obs) != len(cl) {
					res.Fail(classPrefix+"dist-push-set", fmt.Sprintf("query %s bin %s: --dist-push %d returned %v, the targets at the %d smallest occurring distances are %v", q.ID, binName[b], o.DistPush, obs, o.DistPush, candNames(cl)), files, argv)
					bad = true
					break
				}
			}
			if o.DistPush > 0 {
				// --dist-push: set equality, nearest first (order inside one distance is not specified)
				want := map[string]int{}
				for _, c := range cl {
					want[c.name] = c.dist
				}
				okp := len(obs) == len(cl)
				last := -1
				for _, nm := range obs {
					d, in := want[nm]
					if !in || d < last {
						okp = false
					}
					last = d
				}
				if !okp {
					res.Fail(classPrefix+"dist-push-set", fmt.Sprintf("query %s bin %s: --dist-push %d returned %v; expected exactly (nearest first) %v", q.ID, binName[b], o.DistPush, obs, candDesc(cl)), files, argv)
					bad = true
					break
				}
				if dists != nil {
					for k, nm := range obs {
						if dists[qi][b][k] != want[nm] {
							res.Fail(classPrefix+"distance", fmt.Sprintf("query %s target %s: printed distance %d, model %d", q.ID, nm, dists[qi][b][k], want[nm]), files, argv)
							bad = true
						}
					}
				}
				continue
			}
			if len(obs) > len(cl) {
				res.Fail(classPrefix+"not-a-candidate", fmt.Sprintf("query %s bin %s: %d targets returned but only %d candidates pass the thresholds / ignore list / distance limit and sit in that bin: returned %v, candidates %v", q.ID, binName[b], len(obs), len(cl), obs, candNames(cl)), files, argv)
				bad = true
				break
			}
			for k, nm := range obs {
				if cl[k].name != nm {
					// which kind of failure?
					inBin := false
					for _, c := range cl {
						if c.name == nm {
							inBin = true
						}
					}
					cls := "not-a-candidate"
					if inBin {
						cls = "not-a-prefix"
					}
					res.Fail(classPrefix+cls, fmt.Sprintf("query %s bin %s: returned %v; candidates ordered by (distance, fewer ambiguities, file order) are %v", q.ID, binName[b], obs, candDesc(cl)), files, argv)
					bad = true
					break
				}
				if dists != nil && dists[qi][b][k] != cl[k].dist {
					res.Fail(classPrefix+"distance", fmt.Sprintf("query %s target %s: printed distance %d, number of columns where both are A/C/G/T and differ is %d", q.ID, nm, dists[qi][b][k], cl[k].dist), files, argv)
					bad = true
					break
				}
				if k > 0 && cl[k].dist == cl[k-1].dist {
					if cl[k].amb != cl[k-1].amb {
						boundFlags["tie-amb"] = true
					} else {
						boundFlags["tie-file"] = true
					}
				}
			}
		}
		if bad {
			continue
		}
		if o.DistPush > 0 {
			if len(names[qi][0]) != len(cands[0]) {
				res.Fail(classPrefix+"dist-push-same", fmt.Sprintf("query %s: --dist-push must return every identical target: %v vs %v", q.ID, names[qi][0], candNames(cands[0])), files, argv)
			}
			continue
		}
		// size rules
		var avail, base [4]int
		sum := 0
		for b := 0; b < 4; b++ {
			avail[b] = len(cands[b])
			r := math.MaxInt32
			if sizeMode {
				r = req[b]
			}
			base[b] = avail[b]
			if r < base[b] {
				base[b] = r
			}
			sum += size[b]
		}
		if !sizeMode {
			// only distance limits (or nothing): every candidate is returned
			for b := 0; b < 4; b++ {
				if size[b] != avail[b] {
					res.Fail(classPrefix+"dist-only-incomplete", fmt.Sprintf("query %s bin %s: %d of %d candidates within the distance limit returned", q.ID, binName[b], size[b], avail[b]), files, argv)
				}
			}
			continue
		}
		if sum > total {
			res.Fail(classPrefix+"total-exceeded", fmt.Sprintf("query %s: %d targets returned, total limit %d", q.ID, sum, total), files, argv)
			continue
		}
		if o.NoFill {
			for b := 0; b < 4; b++ {
				if size[b] != base[b] {
					res.Fail(classPrefix+"no-fill-size", fmt.Sprintf("query %s bin %s: --no-fill must give min(requested %d, available %d), got %d", q.ID, binName[b], req[b], avail[b], size[b]), files, argv)
				}
			}
			continue
		}
		exhausted := true
		filled := false
		var extra [4]int
		for b := 0; b < 4; b++ {
			if size[b] < base[b] {
				res.Fail(classPrefix+"below-request", fmt.Sprintf("query %s bin %s: %d returned, but min(requested %d, available %d) = %d", q.ID, binName[b], size[b], req[b], avail[b], base[b]), files, argv)
			}
			extra[b] = size[b] - base[b]
			if extra[b] > 0 {
				filled = true
			}
			if size[b] < avail[b] {
				exhausted = false
			}
		}
		if filled {
			boundFlags["fill"] = true
		}
		if sum < total && !exhausted {
			res.Fail(classPrefix+"fill-stopped-early", fmt.Sprintf("query %s: sizes %v (requested %v, available %v): total %d < %d although bins still have spare candidates", q.ID, size, req, avail, sum, total), files, argv)
		}
		for i := 0; i < 4; i++ {
			for j := 0; j < 4; j++ {
				if extra[i] > extra[j]+1 && size[j] < avail[j] {
					res.Fail(classPrefix+"fill-uneven", fmt.Sprintf("query %s: sizes %v (requested %v, available %v): bin %s got %d extra while bin %s with spare candidates got %d", q.ID, size, req, avail, binName[i], extra[i], binName[j], extra[j]), files, argv)
				}
			}
		}
	}
	return
}

func candNames(c []udCand) []string {
	var o []string
	for _, x := range c {
		o = append(o, x.name)
	}
	return o
}

func candDesc(c []udCand) []string {
	var o []string
	for _, x := range c {
		o = append(o, fmt.Sprintf("%s(d=%d,amb=%d)", x.name, x.dist, x.amb))
	}
	return o
}

// gridInput realises bin supplies (same, up, down, side) for one query.
func gridInput(r *fw.Rng, sup [4]int) gen.UpdownInput {
	W := 40
	ref := gen.Genome(r, W)
	alt := func(i int) byte { return gen.OtherBase(fw.NewRng(uint64(i), "alt", int(ref[i])), ref[i]) }
	set := func(s string, ps ...int) string {
		b := []byte(s)
		for _, p := range ps {
			b[p] = alt(p)
		}
		return string(b)
	}
	q := set(ref, 0, 1, 2) // query SNPs at 0,1,2
	var in gen.UpdownInput
	in.Ref = ref
	in.Queries = []gen.FastaRec{{ID: "query0", Desc: "query0", Seq: q}}
	addN := func(s string, n int) string {
		b := []byte(s)
		for k := 0; k < n; k++ {
			b[30+k] = 'N'
		}
		return string(b)
	}
	var ts []string
	// same: identical SNPs, ambiguity counts 1,0,0 (tie on file order for the last two)
	for k := 0; k < sup[0]; k++ {
		ts = append(ts, addN(q, []int{1, 0, 0}[k]))
	}
	// up: distances 2,1,2 (tie between first and third, broken by ambiguities 0 vs 1)
	ups := []string{set(ref, 0), set(ref, 0, 1), addN(set(ref, 1), 1)}
	for k := 0; k < sup[1]; k++ {
		ts = append(ts, ups[k])
	}
	// down: distances 2,1,1 (file-order tie)
	downs := []string{set(q, 10, 11), set(q, 12), set(q, 13)}
	for k := 0; k < sup[2]; k++ {
		ts = append(ts, downs[k])
	}
	// side: distances 3,2,2 with ambiguity 0,1,0
	sides := []string{set(ref, 0, 20, 21), addN(set(ref, 0, 1, 22), 1), set(ref, 0, 1, 23)}
	for k := 0; k < sup[3]; k++ {
		ts = append(ts, sides[k])
	}
	order := r.Perm(len(ts))
	for i, j := range order {
		in.Targets = append(in.Targets, gen.FastaRec{ID: fmt.Sprintf("target%d", i), Desc: fmt.Sprintf("target%d", i), Seq: ts[j]})
	}
	return in
}

func udArgv(o udOpts) []string {
	return []string{"updown", "topranking", fmt.Sprintf("--size-total=%d", o.SizeTotal), fmt.Sprintf("--size-same=%d", o.SizeSame), fmt.Sprintf("--size-up=%d", o.SizeUp), fmt.Sprintf("--size-down=%d", o.SizeDown), fmt.Sprintf("--size-side=%d", o.SizeSide),
		fmt.Sprintf("--no-fill=%v", o.NoFill), fmt.Sprintf("--dist-all=%d", o.DistAll), fmt.Sprintf("--dist-up=%d", o.DistUp), fmt.Sprintf("--dist-down=%d", o.DistDown), fmt.Sprintf("--dist-side=%d", o.DistSide),
		fmt.Sprintf("--dist-push=%d", o.DistPush), fmt.Sprintf("--threshold-pair=%v", o.ThreshPair), fmt.Sprintf("--threshold-target=%d", o.ThreshTarget), fmt.Sprintf("--table=%v", o.Table), fmt.Sprintf("--ignore=%v", o.Ignore)}
}

// randomUDOpts draws an option set.
func randomUDOpts(r *fw.Rng, in gen.UpdownInput) (udOpts, string) {
	o := udOpts{ThreshPair: 0.1, ThreshTarget: 10000, Table: r.Chance(0.5)}
	mode := ""
	switch r.Intn(5) {
	case 0:
		mode = "size-total"
		o.SizeTotal = r.Range(1, 14)
	case 1:
		mode = "size-each"
		for o.SizeSame+o.SizeUp+o.SizeDown+o.SizeSide == 0 {
			o.SizeSame, o.SizeUp, o.SizeDown, o.SizeSide = r.Intn(4), r.Intn(4), r.Intn(4), r.Intn(4)
		}
	case 2:
		mode = "dist"
	case 3:
		mode = "push"
		o.DistPush = r.Range(1, 3)
	default:
		mode = "size+dist"
		o.SizeTotal = r.Range(1, 10)
	}
	if mode == "dist" || mode == "size+dist" {
		if r.Chance(0.5) {
			o.DistAll = r.Range(1, 4)
		} else {
			o.DistUp, o.DistDown, o.DistSide = r.Intn(4), r.Intn(4), r.Intn(4)
			if o.DistUp+o.DistDown+o.DistSide == 0 {
				o.DistUp = 1
			}
		}
	}
	// documented overrides: --dist-all overrides --dist-up/-down/-side, --size-total overrides --size-*
	if o.DistAll > 0 && r.Chance(0.4) {
		o.DistUp, o.DistDown, o.DistSide = r.Intn(5), r.Intn(5), r.Intn(5)
		mode += "+dist-both"
	}
	if o.SizeTotal > 0 && r.Chance(0.25) {
		o.SizeSame, o.SizeUp, o.SizeDown, o.SizeSide = r.Intn(4), r.Intn(4), r.Intn(4), r.Intn(4)
		mode += "+size-both"
	}
	if (strings.HasPrefix(mode, "size-total") || strings.HasPrefix(mode, "size-each") || strings.HasPrefix(mode, "size+dist")) && r.Chance(0.4) {
		o.NoFill = true
	}
	o.ThreshPair = []float32{0.1, 0.1, 0.0, 0.3, 0.5, 1.0}[r.Intn(6)]
	if r.Chance(0.35) {
		// a proportion k/n that pairs actually take (few consequential sites), as the user would
		// type it (0.7, 0.35, 0.125 ...): the boundary itself passes
		n := []int{10, 5, 4, 8, 20}[r.Intn(5)]
		k := r.Range(1, n-1)
		v, _ := strconv.ParseFloat(strconv.FormatFloat(float64(k)/float64(n), 'f', -1, 64), 32)
		o.ThreshPair = float32(v)
	}
	if r.Chance(0.3) {
		o.ThreshTarget = r.Intn(8)
	}
	if r.Chance(0.3) {
		for _, t := range in.Targets {
			if r.Chance(0.15) {
				o.Ignore = append(o.Ignore, t.ID)
			}
		}
	}
	return o, mode
}

func runC08(c *fw.Ctx, idx int) fw.Result {
	var res fw.Result
	r := fw.NewRng(c.Seed, "C08", idx)
	if idx < 256 {
		sup := [4]int{idx & 3, (idx >> 2) & 3, (idx >> 4) & 3, (idx >> 6) & 3}
		if sup == [4]int{0, 0, 0, 0} {
			// no targets at all: an empty target file is (rightly) refused; nothing to observe
			res.Evals++
			return res
		}
		in := gridInput(r, sup)
		refTxt := gen.RefFasta("root", in.Ref, 0)
		qTxt, tTxt := gen.RenderFasta(in.Queries, 0), gen.RenderFasta(in.Targets, 0)
		files := map[string]string{"ref.fasta": refTxt, "query.fasta": qTxt, "target.fasta": tTxt}
		var reqs [][4]int
		for x := 1; x < 256; x++ {
			reqs = append(reqs, [4]int{x & 3, (x >> 2) & 3, (x >> 4) & 3, (x >> 6) & 3})
		}
		if !c.Thorough() {
			p := r.Perm(len(reqs))
			var s [][4]int
			for _, i := range p[:24] {
				s = append(s, reqs[i])
			}
			reqs = s
		}
		for _, rq := range reqs {
			for _, nofill := range []bool{false, true} {
				o := udOpts{ThreshPair: 0.1, ThreshTarget: 10000, Table: r.Chance(0.5), SizeSame: rq[0], SizeUp: rq[1], SizeDown: rq[2], SizeSide: rq[3], NoFill: nofill}
				out, err := run.TopRanking(qTxt, tTxt, refTxt, "fasta", "fasta", o)
				res.Evals++
				f := cloneFiles(files)
				f["observed.csv"] = out
				if err != nil {
					res.Fail("grid:error-on-valid-input", err.Error(), f, udArgv(o))
					continue
				}
				checkTopRanking(&res, in, o, out, f, udArgv(o), "grid:")
				res.Sig(fmt.Sprintf("grid|%v|%v|%v", sup, rq, nofill))
				res.Count("grid_points", 1)
			}
		}
		for total := 1; total <= 14; total++ {
			o := udOpts{ThreshPair: 0.1, ThreshTarget: 10000, Table: r.Chance(0.5), SizeTotal: total, NoFill: total%5 == 0}
			out, err := run.TopRanking(qTxt, tTxt, refTxt, "fasta", "fasta", o)
			res.Evals++
			f := cloneFiles(files)
			f["observed.csv"] = out
			if err != nil {
				res.Fail("grid:error-on-valid-input", err.Error(), f, udArgv(o))
				continue
			}
			checkTopRanking(&res, in, o, out, f, udArgv(o), "grid:")
			res.Sig(fmt.Sprintf("gridtotal|%v|%d", sup, total))
			res.Count("grid_size_total_points", 1)
		}
		if idx == 77 {
			res.Sample = map[string]interface{}{"supply(same,up,down,side)": sup, "query": qTxt, "target": tTxt, "reference": refTxt}
		}
		return res
	}
	uprof := gen.UpdownProfile{MaxQueries: 5, MaxTargets: 30, PAmbTract: 0.35, MultiHit: true}
	wideUD := idx%120 == 31
	if wideUD {
		// genome scale: rows wider than 2^15 with targets that are mostly N (more than 2^15 ambiguous
		// columns) next to complete ones, and an ambiguity allowance that keeps them as candidates
		uprof.Width = [2]int{33500, 41000}
		uprof.MaxQueries, uprof.MaxTargets = 2, 10
	}
	in := gen.MakeUpdown(r, uprof)
	if wideUD {
		for k := 0; k < 2 && k < len(in.Targets); k++ {
			j := r.Intn(len(in.Targets))
			b := []byte(in.Targets[j].Seq)
			var same []int
			for i := range b {
				if b[i] == in.Ref[i] {
					same = append(same, i)
				}
			}
			want := r.Range(32768, 33400)
			for _, x := range r.Perm(len(same)) {
				if want == 0 {
					break
				}
				b[same[x]] = 'N'
				want--
			}
			in.Targets[j].Seq = string(b)
		}
		res.Count("genome_scale_cases", 1)
	}
	o, mode := randomUDOpts(r, in)
	if wideUD {
		o.ThreshTarget, o.ThreshPair = 100000, 1
	}
	if !o.Table && len(in.Queries) >= 2 && r.Chance(0.2) {
		// two query records with one ID and different sequences (a re-sequenced sample): each is a
		// query of its own with its own row, in file order (the list form is read by position)
		k, j := r.Intn(len(in.Queries)), r.Intn(len(in.Queries))
		if k != j {
			in.Queries[j].ID, in.Queries[j].Desc = in.Queries[k].ID, in.Queries[k].Desc
			res.Count("cases_with_repeated_query_id", 1)
		}
	}
	if idx%6 == 4 {
		// a pair exactly on the --threshold-pair boundary: a query with n SNPs and targets that are
		// ambiguous at k-1, k and k+1 of those sites (proportion k/n of the consequential sites),
		// with the threshold typed as the decimal k/n. The boundary itself passes.
		nk := [][2]int{{10, 7}, {10, 9}, {20, 7}, {20, 9}, {20, 13}, {20, 19}, {10, 3}, {5, 2}, {4, 1}, {8, 5}}[r.Intn(10)]
		n, k := nk[0], nk[1]
		if len(in.Ref) >= n {
			sites := r.Perm(len(in.Ref))[:n]
			qb := []byte(in.Ref)
			for _, p := range sites {
				qb[p] = gen.OtherBase(r, in.Ref[p])
			}
			in.Queries = append(in.Queries, gen.FastaRec{ID: "boundary_query", Desc: "boundary_query", Seq: string(qb)})
			for _, kk := range []int{k - 1, k, k + 1} {
				tb := []byte(in.Ref)
				for _, p := range sites[:kk] {
					tb[p] = "N-?R"[r.Intn(4)]
					if tb[p] == 'R' && (in.Ref[p] == 'A' || in.Ref[p] == 'G') {
						tb[p] = 'N'
					}
				}
				in.Targets = append(in.Targets, gen.FastaRec{ID: fmt.Sprintf("boundary_target_%d_of_%d", kk, n), Desc: fmt.Sprintf("boundary_target_%d_of_%d", kk, n), Seq: string(tb)})
			}
			v, _ := strconv.ParseFloat(strconv.FormatFloat(float64(k)/float64(n), 'f', -1, 64), 32)
			o.ThreshPair = float32(v)
			o.ThreshTarget = 10000
			res.Count("cases_with_pair_on_threshold_boundary", 1)
		}
	}
	refTxt := noFinalNL(r, gen.RefFasta("root", in.Ref, gen.PickLineWidth(r, len(in.Ref))))
	qTxt, tTxt := noFinalNL(r, gen.RenderFasta(in.Queries, gen.PickLineWidth(r, len(in.Ref)))), noFinalNL(r, gen.RenderFasta(in.Targets, gen.PickLineWidth(r, len(in.Ref))))
	// the inputs as alignments or as the CSV that `updown list` makes of them: the same neighbours
	qForm, tForm, qIn, tIn := "fasta", "fasta", qTxt, tTxt
	if idx%4 == 1 {
		if fw.Mix(uint64(idx)+3)%3 != 0 {
			if csv, e := run.UpdownList(refTxt, tTxt); e == nil {
				tForm, tIn = "csv", csv
			}
		}
		if fw.Mix(uint64(idx)+5)%3 == 0 {
			if csv, e := run.UpdownList(refTxt, qTxt); e == nil {
				qForm, qIn = "csv", csv
			}
		}
		res.Count("cases_with_csv_input", 1)
	}
	out, err := run.TopRanking(qIn, tIn, refTxt, qForm, tForm, o)
	res.Evals++
	files := map[string]string{"ref.fasta": refTxt, "query.fasta": qTxt, "target.fasta": tTxt, "observed.csv": out, "query_as_given." + qForm: qIn, "target_as_given." + tForm: tIn}
	if err != nil {
		res.Fail(mode+":error-on-valid-input", err.Error(), files, udArgv(o))
		return res
	}
	if idx%20 == 9 {
		binSample(c, &res, idx, "topranking", map[string]string{"ref.fasta": refTxt, "q.fasta": qTxt, "t.fa": tTxt,
			"ignore.txt": strings.Join(o.Ignore, "\n") + map[bool]string{true: "\n", false: ""}[idx%40 == 9]}, func(p func(string) string) []string {
			a := []string{"updown", "topranking", "-r", p("ref.fasta"), "-q", p("q.fasta"), "-t", p("t.fa")}
			for k, v := range map[string]int{"--size-total": o.SizeTotal, "--size-same": o.SizeSame, "--size-up": o.SizeUp, "--size-down": o.SizeDown, "--size-side": o.SizeSide, "--dist-all": o.DistAll, "--dist-up": o.DistUp, "--dist-down": o.DistDown, "--dist-side": o.DistSide, "--dist-push": o.DistPush} {
				if v != 0 {
					a = append(a, k, fmt.Sprint(v))
				}
			}
			a = append(a, "--threshold-pair", fmt.Sprint(o.ThreshPair), "--threshold-target", fmt.Sprint(o.ThreshTarget))
			a = boolFlag(a, "no-fill", o.NoFill, idx%3 == 0)
			a = boolFlag(a, "table", o.Table, idx%3 == 1)
			if len(o.Ignore) > 0 {
				a = append(a, "--ignore", p("ignore.txt"))
			}
			return a
		}, nil, map[bool]string{true: "", false: "-o"}[fw.Mix(uint64(idx)+7)%3 == 0], out)
	}
	flags := checkTopRanking(&res, in, o, out, files, udArgv(o), mode+":")
	var fk []string
	for k := range flags {
		fk = append(fk, k)
		res.Count("cases_with_"+k, 1)
	}
	sort.Strings(fk)
	multi := false
	for _, q := range in.Queries {
		for _, t := range in.Targets {
			u := model.UpdownRelation(in.Ref, q.Seq, t.Seq)
			if u.Dist < u.Qonly+u.Tonly {
				multi = true
			}
		}
	}
	if multi {
		res.Count("cases_with_multiple_hit", 1)
	}
	res.Sig(fmt.Sprintf("rand|%s|%s|%v|%d|%v", mode, strings.Join(fk, ","), multi, o.DistPush, o.NoFill))
	if idx < 258 {
		res.Sample = map[string]interface{}{"argv": udArgv(o), "query": clipStr(qTxt, 400), "target": clipStr(tTxt, 800), "observed": clipStr(out, 500)}
	}
	return res
}
