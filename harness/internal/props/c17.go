package props

import (
	"fmt"
	"runtime"
	"sync"

	"github.com/virus-evolution/gofasta/pkg/alphabet"
	"github.com/virus-evolution/gofasta/pkg/encoding"
	"github.com/virus-evolution/gofasta/pkg/fastaio"

	"verifharness/internal/fw"
	"verifharness/internal/gen"
	"verifharness/internal/model"
	"verifharness/internal/run"
)

const iupac15 = "ACGTRYSWKMBDHVN"

func init() {
	fw.Register(&fw.Property{
		ID:    "C17",
		Level: "exploration",
		Rule: "the whole finite domain executed against the real functions: all 15^3 = 3375 IUPAC codons through MakeCodonDict, Translate(strict and non-strict); the 64 unambiguous codons against an independently encoded NCBI table-1 string; all 32 accepted nucleotide characters, and all 33 792 strings of two and three of them, through the text and encoded complement, encode/decode tables and the record-level Complement/ReverseComplement methods; plus random sequences for the record-level involutions; every codon whose product is not a stop is also placed as a reference codon of a one-CDS GFF-annotated genome and run through variants (resolvable: the aa record carries that product; unresolvable: refused in strict mode, or answered with every differing position listed); " +
			"distinct non-trivial = distinct codons and characters checked (every one is a distinct case)",
		Assumptions: []string{"the 64-letter NCBI translation table string and the IUPAC set table in the harness are correct"},
		Exhaustive:  true,
		Race:        true,
		MinNontriv:  3375 + 32,
		Cases: func(tier string) int {
			if tier == "thorough" {
				return 15 + 1 + 4000
			}
			return 15 + 1 + 20
		},
		Run: runC17,
	})
}

// c17VariantsOnReferenceCodon observes the codon through `variants` with a GFF annotation, whose
// reference proteins are translated in strict mode: the codon is the second codon of the only
// CDS of a 20-base genome. A codon with one product must give the aa record with that product as
// the reference residue; a codon without one makes the reference protein undefined, which the
// command may refuse (strict mode) - but if it answers, the answer still has to list every
// position at which query and reference differ.
func c17VariantsOnReferenceCodon(res *fw.Result, codon string, want byte) {
	ref := "CA" + "ATG" + codon + "GGA" + "TAA" + "CATCAT"
	qc, qaa := "GGG", byte('G')
	if want == 'G' {
		qc, qaa = "AAA", 'K'
	}
	qry := "TA" + "ATG" + qc + "GGA" + "TAA" + "CAGCAT"
	gff := "##gff-version 3\n##sequence-region r 1 20\nr\tx\tgene\t3\t14\t.\t+\t.\tID=gene-orf;Name=orf\nr\tx\tCDS\t3\t14\t.\t+\t0\tID=cds-orf;Parent=gene-orf;Name=orf\n"
	msa := ">r\n" + ref + "\n>q\n" + qry + "\n"
	out, err := run.Variants(msa, "r", gff, "gff", -1, -1, false, 0, true, 1)
	res.Evals++
	files := map[string]string{"msa.fasta": msa, "annotation.gff": gff, "observed.csv": out}
	argv := []string{"variants", "--msa", "msa.fasta", "-r", "r", "-a", "annotation.gff", "--append-snps"}
	if err != nil {
		if want != 'X' {
			res.Fail("variants-refuses-resolvable-reference-codon", fmt.Sprintf("reference codon %s has the single product %c but variants failed: %v", codon, want, err), files, argv)
		} else {
			res.Count("variants_runs_refused_for_an_unresolvable_reference_codon", 1)
		}
		return
	}
	_, muts, ok := model.ParseVariantsCSV(out)
	if !ok || len(muts) != 1 {
		res.Fail("variants-output-format", "variants output for the one-CDS genome could not be parsed: "+clipStr(out, 200), files, argv)
		return
	}
	mentioned := map[int]bool{}
	var aa *model.Mut
	for i, m := range muts[0] {
		switch m.Kind {
		case "nuc":
			mentioned[m.Pos] = true
		case "aa":
			if m.K == 2 {
				aa = &muts[0][i]
			}
			for _, in := range m.Inner {
				mentioned[in.Pos] = true
			}
		}
	}
	for p := 0; p < len(ref); p++ {
		if model.Disjoint(ref[p], qry[p], false) && !mentioned[p+1] {
			res.Fail("variants-drops-snp-with-ambiguous-reference-codon", fmt.Sprintf("reference codon %s: the run succeeded but position %d (%c vs %c) is not mentioned in %q", codon, p+1, ref[p], qry[p], clipStr(out, 200)), files, argv)
			return
		}
	}
	if want == 'X' {
		res.Count("variants_runs_answered_for_an_unresolvable_reference_codon", 1)
		return
	}
	res.Count("variants_runs_on_resolvable_reference_codons", 1)
	if aa == nil || aa.Feature != "orf" || aa.R != want || aa.Q != qaa {
		res.Fail("variants-aa-on-ambiguity-codon", fmt.Sprintf("reference codon %s (product %c), query codon %s (%c): expected aa:orf:%c2%c, observed %q", codon, want, qc, qaa, want, qaa, clipStr(out, 200)), files, argv)
	}
}

// c17ConcurrentBurst translates from several goroutines at once. The first case of every
// worker process is also the first use of the tables in that process, so lazily initialised
// shared state is exercised (and the workers are race-built).
func c17ConcurrentBurst(res *fw.Result, idx int) {
	// The first case of a worker process is the first use of the package in that process. Which
	// function comes first must not matter: odd cases start with the text complement, even ones
	// with translation (the tables must not depend on another function having run before).
	if idx%2 == 1 {
		all := "ACGTRYSWKMBDHVNacgtrykmswbdhvn-?"
		comp := alphabet.Complement(all)
		rc := alphabet.ReverseComplement(all)
		res.Evals += 2
		res.Count("complement_first_cases", 1)
		bad := len(comp) != len(all) || len(rc) != len(all)
		for i := 0; i < len(all) && !bad; i++ {
			a, _ := model.SetOf(all[i], false)
			b, ok1 := model.SetOf(comp[i], false)
			d, ok2 := model.SetOf(rc[len(all)-1-i], false)
			if !ok1 || !ok2 || b != model.ComplementSet(a) || d != model.ComplementSet(a) {
				bad = true
			}
		}
		if bad {
			res.Fail("complement-before-translate", fmt.Sprintf("Complement / ReverseComplement called before any Translate in this process: Complement(%q) = %q, ReverseComplement = %q", all, comp, rc), nil, nil)
		}
	}
	var wg sync.WaitGroup
	errs := make(chan string, 64)
	start := make(chan struct{})
	for g := 0; g < 8; g++ {
		wg.Add(1)
		go func(g int) {
			defer wg.Done()
			<-start
			for k := 0; k < 40; k++ {
				a, b, d := iupac15[(g+k)%15], iupac15[(3*k+idx)%15], iupac15[(7*k+g)%15]
				codon := string([]byte{a, b, d})
				want, _ := model.TranslateAmbig(codon)
				if t, err := alphabet.Translate(codon, false); err != nil || t != string(want) {
					errs <- fmt.Sprintf("concurrent Translate(%s,false) = %q,%v; expected %c", codon, t, err, want)
					return
				}
				got, ok := alphabet.MakeCodonDict()[codon]
				if (want == 'X') == ok || (ok && got != string(want)) {
					errs <- fmt.Sprintf("concurrent MakeCodonDict()[%s] = %q,%v; expected %c", codon, got, ok, want)
					return
				}
				if alphabet.Complement(string(a)) == "" {
					errs <- "empty complement"
				}
			}
		}(g)
	}
	close(start)
	wg.Wait()
	close(errs)
	for e := range errs {
		res.Fail("concurrent-use", e, nil, nil)
	}
	res.Evals += 8 * 40
	res.Count("concurrent_bursts", 1)
}

func runC17(c *fw.Ctx, idx int) fw.Result {
	var res fw.Result
	c17ConcurrentBurst(&res, idx)
	switch {
	case idx < 15:
		// all codons starting with iupac15[idx]
		CD := alphabet.MakeCodonDict()
		for _, b := range []byte(iupac15) {
			for _, d := range []byte(iupac15) {
				codon := string([]byte{iupac15[idx], b, d})
				want, _ := model.TranslateAmbig(codon)
				res.Evals += 3
				res.Sig("codon|" + codon)
				unamb := model.IsACGT(codon[0]) && model.IsACGT(codon[1]) && model.IsACGT(codon[2])
				if unamb {
					res.Count("unambiguous_codons", 1)
				}
				// dictionary
				got, ok := CD[codon]
				if want == 'X' {
					res.Count("codons_expected_X", 1)
					if ok {
						res.Fail("codon-dict-unsound", fmt.Sprintf("MakeCodonDict maps %s to %s but its A/C/G/T expansions have different products", codon, got), nil, nil)
					}
				} else {
					res.Count("codons_expected_resolved", 1)
					if !ok || got != string(want) {
						res.Fail("codon-dict-incomplete", fmt.Sprintf("MakeCodonDict maps %s to %q, every expansion translates to %c", codon, got, want), nil, nil)
					}
				}
				// non-strict translation
				t, err := alphabet.Translate(codon, false)
				if err != nil || t != string(want) {
					res.Fail("translate-nonstrict", fmt.Sprintf("Translate(%s,false) = %q,%v; expected %c", codon, t, err, want), nil, nil)
				}
				// strict translation errors exactly where non-strict gives X
				// the product of a codon must not depend on its neighbours
				for _, ctx := range []string{"ATN", "AAA"} {
					wantCtx, _ := model.TranslateAmbig(ctx)
					res.Evals += 2
					if t2, err2 := alphabet.Translate(ctx+codon, false); err2 != nil || t2 != string([]byte{wantCtx, want}) {
						res.Fail("translate-context", fmt.Sprintf("Translate(%s,false) = %q,%v; expected %c%c (a codon's product must not depend on the preceding codon)", ctx+codon, t2, err2, wantCtx, want), nil, nil)
					}
					if t3, err3 := alphabet.Translate(codon+ctx, false); err3 != nil || t3 != string([]byte{want, wantCtx}) {
						res.Fail("translate-context", fmt.Sprintf("Translate(%s,false) = %q,%v; expected %c%c", codon+ctx, t3, err3, want, wantCtx), nil, nil)
					}
				}
				ts, errs := alphabet.Translate(codon, true)
				if want == 'X' {
					if errs == nil {
						res.Fail("translate-strict", fmt.Sprintf("Translate(%s,true) = %q without error although the codon is ambiguous", codon, ts), nil, nil)
					}
				} else if errs != nil || ts != string(want) {
					res.Fail("translate-strict", fmt.Sprintf("Translate(%s,true) = %q,%v; expected %c", codon, ts, errs, want), nil, nil)
				}
				if want != '*' {
					c17VariantsOnReferenceCodon(&res, codon, want)
				}
			}
		}
		if idx == 0 {
			res.Sample = map[string]interface{}{"codon": "AAR", "Translate(AAR,false)": mustT("AAR"), "codon2": "ARA", "Translate(ARA,false)": mustT("ARA")}
		}
	case idx == 15:
		// all 32 accepted characters
		CA := alphabet.MakeCompArray()
		EA := encoding.MakeEncodingArray()
		EH := encoding.MakeEncodingArrayHardGaps()
		DA := encoding.MakeDecodingArray()
		ECA := alphabet.MakeEncodedCompArray()
		SA := encoding.MakeScoreArray()
		ESA := encoding.MakeEncodedScoreArray()
		chars := []byte("ACGTRYSWKMBDHVNacgtrykmswbdhvn-?")
		// every string of two and of three symbols (a codon is complemented as a string of three):
		// the complement of a string is the string of its symbols' complements, whatever its length
		buf := make([]byte, 0, 3)
		nShort := 0
		for _, a := range chars {
			for _, b := range chars {
				for k := -1; k < len(chars); k++ {
					buf = append(buf[:0], a, b)
					if k >= 0 {
						buf = append(buf, chars[k])
					}
					str := string(buf)
					comp, rc := alphabet.Complement(str), alphabet.ReverseComplement(str)
					nShort++
					ok := len(comp) == len(str) && len(rc) == len(str)
					for i := 0; ok && i < len(str); i++ {
						ok = comp[i] == c17Comp(str[i]) && rc[len(str)-1-i] == c17Comp(str[i])
					}
					if !ok {
						res.Fail("complement-short-string", fmt.Sprintf("Complement(%q) = %q, ReverseComplement(%q) = %q: not the symbol-wise complement", str, comp, str, rc), nil, nil)
						break
					}
				}
			}
		}
		res.Evals += nShort
		res.Count("strings_of_two_and_three_symbols_complemented", nShort)
		for _, ch := range chars {
			res.Sig("char|" + string(ch))
			res.Evals += 6
			set, _ := model.SetOf(ch, false)
			wantSet := model.ComplementSet(set)
			// text complement
			cc := CA[ch]
			cs, ok := model.SetOf(cc, false)
			if !ok || cs != wantSet || (ch == '-' && cc != '-') || (ch == '?' && cc != '?') {
				res.Fail("complement-text", fmt.Sprintf("complement of %q is %q, which does not denote the base-wise complement", ch, cc), nil, nil)
			}
			lower := ch >= 'a' && ch <= 'z'
			if (cc >= 'a' && cc <= 'z') != lower {
				res.Fail("complement-text-case", fmt.Sprintf("complement of %q changes case: %q", ch, cc), nil, nil)
			}
			if CA[cc] != ch {
				res.Fail("complement-text-involution", fmt.Sprintf("complement(complement(%q)) = %q", ch, CA[cc]), nil, nil)
			}
			if alphabet.Complement(string(ch)) != string(cc) {
				res.Fail("complement-text", "Complement() disagrees with MakeCompArray", nil, nil)
			}
			// encode / decode
			e := EA[ch]
			if e == 0 || DA[e] != string(model.Upper(ch)) {
				res.Fail("encode-decode", fmt.Sprintf("decode(encode(%q)) = %q", ch, DA[e]), nil, nil)
			}
			eh := EH[ch]
			if eh == 0 || DA[eh] != string(model.Upper(ch)) {
				res.Fail("encode-decode-hardgaps", fmt.Sprintf("decode(encodeHardGaps(%q)) = %q", ch, DA[eh]), nil, nil)
			}
			// record-level decoding of either gap encoding
			for _, code := range []byte{e, eh} {
				rec := fastaio.EncodedFastaRecord{ID: "x", Seq: []byte{code, code}}
				want := string(model.Upper(ch)) + string(model.Upper(ch))
				if d := rec.Decode().Seq; d != want || encoding.DecodeToString([]byte{code, code}) != want {
					res.Fail("record-decode", fmt.Sprintf("EncodedFastaRecord.Decode / DecodeToString of code %d (%q) gives %q / %q, expected %q", code, ch, d, encoding.DecodeToString([]byte{code, code}), want), nil, nil)
				}
			}
			if ch != '-' && eh != e {
				res.Fail("encode-hardgaps", fmt.Sprintf("hard-gap encoding of %q differs from the soft one", ch), nil, nil)
			}
			// the encoding's set semantics: high nibble bits A=128 G=64 C=32 T=16
			var es uint8
			if e&128 != 0 {
				es |= 1
			}
			if e&32 != 0 {
				es |= 2
			}
			if e&64 != 0 {
				es |= 4
			}
			if e&16 != 0 {
				es |= 8
			}
			if es != set {
				res.Fail("encoding-set", fmt.Sprintf("bit encoding %d of %q denotes set %d, expected %d", e, ch, es, set), nil, nil)
			}
			if (e&8 != 0) != model.IsACGT(ch) {
				res.Fail("encoding-known-bit", fmt.Sprintf("bit 8 of encoding %d of %q", e, ch), nil, nil)
			}
			// encoded complement
			ec := ECA[e]
			if ec != EA[cc] {
				res.Fail("complement-encoded", fmt.Sprintf("encoded complement of %q is %d (%q), expected %d (%q)", ch, ec, DA[ec], EA[cc], model.Upper(cc)), nil, nil)
			}
			if ECA[ec] != e {
				res.Fail("complement-encoded-involution", fmt.Sprintf("encoded complement twice of %q gives %d", ch, ECA[ec]), nil, nil)
			}
			// scores: 12 / |set|
			wantScore := int64(12 / model.SetSize(ch))
			if SA[ch] != wantScore || ESA[e] != wantScore {
				res.Fail("score-table", fmt.Sprintf("score of %q: text %d encoded %d expected %d", ch, SA[ch], ESA[e], wantScore), nil, nil)
			}
		}
		// bytes outside the alphabet must not be accepted by the encoders
		for b := 0; b < 256; b++ {
			in := false
			for _, ch := range chars {
				if int(ch) == b {
					in = true
				}
			}
			if !in && (EA[b] != 0 || EH[b] != 0) {
				res.Fail("encode-accepts-foreign", fmt.Sprintf("byte %d outside the alphabet has encoding %d", b, EA[b]), nil, nil)
			}
			res.Evals++
		}
		res.Sample = map[string]interface{}{"char": "R", "complement": string(CA['R']), "encoding": EA['R'], "encoded_complement_decoded": DA[ECA[EA['R']]]}
	default:
		// record-level involutions on random sequences
		r := fw.NewRng(c.Seed, "C17", idx)
		// random multi-codon sequences: translation is the concatenation of the per-codon products
		for k := 0; k < 40; k++ {
			n := r.Range(0, 30)
			var sb, wb []byte
			anyX := false
			for i := 0; i < n; i++ {
				var cod [3]byte
				for j := range cod {
					if r.Chance(0.25) {
						cod[j] = iupac15[r.Intn(15)]
					} else {
						cod[j] = "ACGT"[r.Intn(4)]
					}
				}
				w, _ := model.TranslateAmbig(string(cod[:]))
				if w == 'X' {
					anyX = true
				}
				sb = append(sb, cod[:]...)
				wb = append(wb, w)
			}
			res.Evals += 2
			res.Count("random_multi_codon_sequences", 1)
			if t, err := alphabet.Translate(string(sb), false); err != nil || t != string(wb) {
				res.Fail("translate-sequence", fmt.Sprintf("Translate(%s,false) = %q,%v; per-codon expansion gives %q", sb, t, err, wb), nil, nil)
			}
			t, err := alphabet.Translate(string(sb), true)
			if anyX != (err != nil) || (!anyX && t != string(wb)) {
				res.Fail("translate-sequence-strict", fmt.Sprintf("Translate(%s,true) = %q,%v; per-codon expansion gives %q", sb, t, err, wb), nil, nil)
			}
			if _, err := alphabet.Translate(string(sb)+"A", false); err == nil {
				res.Fail("translate-length", "a sequence whose length is not a multiple of 3 was translated without error", nil, nil)
			}
		}
		// genome-length sequences, under several processor settings: the tables are per symbol,
		// the functions over sequences must be too, whatever the length
		{
			before := runtime.GOMAXPROCS(0)
			EA := encoding.MakeEncodingArray()
			for k := 0; k < 3; k++ {
				L := []int{8191, 8192, 8193, 29903, 65537, 100003, r.Range(1000, 120000), r.Range(1000, 120000)}[r.Intn(8)]
				procs := []int{1, 2, 3, 7, 16}[r.Intn(5)]
				runtime.GOMAXPROCS(procs)
				sb := []byte(gen.RandSeq(r, L, gen.SeqProfile{PAmbig: 0.2, PGap: 0.05, PQ: 0.02, PLower: 0.2}))
				// masked stretches: runs of 16-200 symbols drawn from N n - ? (dropouts next to
				// deletions and trimmed ends), uniform or mixed
				for m := 0; m < 6 && L > 400; m++ {
					at := r.Intn(L - 250)
					n := r.Range(16, 200)
					pal := []string{"N", "Nn", "N-", "N-?n", "-?", "?"}[r.Intn(6)]
					for k := 0; k < n; k++ {
						if r.Chance(0.8) && k > 0 {
							sb[at+k] = sb[at+k-1] // runs of one symbol inside the stretch
						} else {
							sb[at+k] = pal[r.Intn(len(pal))]
						}
					}
				}
				s := string(sb)
				res.Evals += 4
				res.Count("long_sequences", 1)
				res.Sig(fmt.Sprintf("long|%d|p%d", L, procs))
				comp := alphabet.Complement(s)
				rc := alphabet.ReverseComplement(s)
				fr := fastaio.FastaRecord{ID: "x", Seq: s}
				ef := fr.Encode()
				ec, erc := ef.Complement(), ef.ReverseComplement()
				bad := ""
				if len(comp) != L || len(rc) != L || len(ec.Seq) != L || len(erc.Seq) != L || len(ef.Seq) != L {
					bad = "a result has a different length than the input"
				}
				for i := 0; i < L && bad == ""; i++ {
					a, _ := model.SetOf(s[i], false)
					want := model.ComplementSet(a)
					b, ok1 := model.SetOf(comp[i], false)
					d, ok2 := model.SetOf(rc[L-1-i], false)
					switch {
					case comp[i] != c17Comp(s[i]) || rc[L-1-i] != c17Comp(s[i]):
						bad = fmt.Sprintf("Complement / ReverseComplement: position %d of %d: %q -> %q / %q, expected %q (the symbol itself matters: N, '-' and '?' are different symbols, case is kept)", i, L, s[i], comp[i], rc[L-1-i], c17Comp(s[i]))
					case !ok1 || b != want:
						bad = fmt.Sprintf("Complement: position %d of %d: %q -> %q", i, L, s[i], comp[i])
					case !ok2 || d != want:
						bad = fmt.Sprintf("ReverseComplement: position %d of %d (from the end): %q -> %q", i, L, s[i], rc[L-1-i])
					case ef.Seq[i] != EA[s[i]]:
						bad = fmt.Sprintf("Encode: position %d of %d: %q -> %d", i, L, s[i], ef.Seq[i])
					case ec.Seq[i] != EA[comp[i]]:
						bad = fmt.Sprintf("encoded Complement: position %d of %d: %q -> code %d", i, L, s[i], ec.Seq[i])
					case erc.Seq[L-1-i] != EA[comp[i]]:
						bad = fmt.Sprintf("encoded ReverseComplement: position %d of %d: %q -> code %d", i, L, s[i], erc.Seq[L-1-i])
					}
				}
				if bad == "" && (alphabet.Complement(comp) != s || alphabet.ReverseComplement(rc) != s) {
					bad = "complement / reverse complement twice is not the identity"
				}
				if bad != "" {
					res.Fail("long-sequence", fmt.Sprintf("sequence of length %d with GOMAXPROCS=%d: %s", L, procs, bad), map[string]string{"seq.txt": s}, nil)
				}
				// translation of a long coding sequence = per-codon products
				n := L / 3
				cds := make([]byte, 0, 3*n)
				want := make([]byte, 0, n)
				for i := 0; i < n; i++ {
					var cod [3]byte
					for j := range cod {
						if r.Chance(0.05) {
							cod[j] = iupac15[r.Intn(15)]
						} else {
							cod[j] = "ACGT"[r.Intn(4)]
						}
					}
					w, _ := model.TranslateAmbig(string(cod[:]))
					cds = append(cds, cod[:]...)
					want = append(want, w)
				}
				if t, err := alphabet.Translate(string(cds), false); err != nil || t != string(want) {
					res.Fail("long-sequence-translate", fmt.Sprintf("Translate of a %d-codon sequence with GOMAXPROCS=%d differs from the per-codon products (err=%v)", n, procs, err), map[string]string{"cds.txt": string(cds)}, nil)
				}
			}
			runtime.GOMAXPROCS(before)
		}
		for k := 0; k < 50; k++ {
			L := r.Range(0, 200)
			s := gen.RandSeq(r, L, gen.SeqProfile{PAmbig: 0.3, PGap: 0.1, PQ: 0.05, PLower: 0.3})
			res.Evals += 4
			res.Count("random_sequences", 1)
			fr := fastaio.FastaRecord{ID: "x", Seq: s}
			if fr.Complement().Complement().Seq != s {
				res.Fail("record-complement-involution", "FastaRecord.Complement twice is not the identity on "+s, nil, nil)
			}
			if fr.ReverseComplement().ReverseComplement().Seq != s {
				res.Fail("record-revcomp-involution", "FastaRecord.ReverseComplement twice is not the identity on "+s, nil, nil)
			}
			if alphabet.ReverseComplement(alphabet.ReverseComplement(s)) != s {
				res.Fail("revcomp-involution", "ReverseComplement twice is not the identity on "+s, nil, nil)
			}
			rc := fr.ReverseComplement().Seq
			for i := 0; i < L; i++ {
				a, _ := model.SetOf(s[i], false)
				b, _ := model.SetOf(rc[L-1-i], false)
				if b != model.ComplementSet(a) {
					res.Fail("record-revcomp", "reverse complement is not the reversed base-wise complement of "+s, nil, nil)
					break
				}
			}
			ef := fr.Encode()
			if ef.Decode().Seq != upperStr(s) {
				res.Fail("record-encode-decode", "Decode(Encode(s)) != upper(s) for "+s, nil, nil)
			}
			if ef.ReverseComplement().ReverseComplement().Decode().Seq != upperStr(s) {
				res.Fail("encoded-revcomp-involution", "EncodedFastaRecord.ReverseComplement twice is not the identity on "+s, nil, nil)
			}
			if ef.Complement().Decode().Seq != upperStr(fr.Complement().Seq) {
				res.Fail("encoded-vs-text-complement", "encoded and text complements disagree on "+s, nil, nil)
			}
			if ef.ReverseComplement().Decode().Seq != upperStr(rc) {
				res.Fail("encoded-vs-text-revcomp", "encoded and text reverse complements disagree on "+s, nil, nil)
			}
			// the table functions are pure: they neither change their argument nor depend on
			// earlier calls (decode the same encoded slice twice, complement it afterwards)
			{
				before := append([]byte{}, ef.Seq...)
				d1 := encoding.DecodeToString(ef.Seq)
				d2 := encoding.DecodeToString(ef.Seq)
				d3 := ef.Decode().Seq
				ef.Complement()
				ef.ReverseComplement()
				ef.CalculateBaseContent()
				res.Evals++
				if d1 != upperStr(s) || d2 != d1 || d3 != d1 || string(before) != string(ef.Seq) {
					res.Fail("argument-modified", fmt.Sprintf("decoding / complementing an encoded sequence twice does not give the same result or changes the argument: first %q, second %q, record-level %q (input %s)", d1, d2, d3, s), nil, nil)
				}
			}
			// results are values: a later call must not change an earlier result
			keep1, keep2 := ef.Complement(), ef.ReverseComplement()
			want1, want2 := keep1.Decode().Seq, keep2.Decode().Seq
			other := fastaio.FastaRecord{ID: "y", Seq: gen.RandSeq(r, L, gen.SeqProfile{PAmbig: 0.3})}.Encode()
			other.Complement()
			other.ReverseComplement()
			fr.Complement()
			if keep1.Decode().Seq != want1 || keep2.Decode().Seq != want2 || ef.Decode().Seq != upperStr(s) {
				res.Fail("complement-result-aliased", "the result of an earlier Complement/ReverseComplement call changed after a later call (shared buffer) for "+s, nil, nil)
			}
		}
	}
	return res
}

func mustT(s string) string {
	t, _ := alphabet.Translate(s, false)
	return t
}

func upperStr(s string) string {
	b := []byte(s)
	for i := range b {
		b[i] = model.Upper(b[i])
	}
	return string(b)
}

// c17Comp is the complement of one accepted character, written out independently of the code
// under test: the IUPAC code of the complemented base set, same letter case; '-' and '?' stay.
func c17Comp(ch byte) byte {
	const from = "ACGTRYSWKMBDHVN-?"
	const to = "TGCAYRSWMKVHDBN-?"
	up := ch
	lower := ch >= 'a' && ch <= 'z'
	if lower {
		up = ch - 32
	}
	for i := 0; i < len(from); i++ {
		if from[i] == up {
			if lower {
				return to[i] + 32
			}
			return to[i]
		}
	}
	return 0
}
