package props

import (
	"fmt"
	"os"
	"path/filepath"
	"strings"
	"time"

	"verifharness/internal/fw"
	"verifharness/internal/gen"
	"verifharness/internal/model"
	"verifharness/internal/run"
)

func init() {
	fw.Register(&fw.Property{
		ID:         "C02",
		Level:      "exploration",
		Jitter:     true,
		RaceSample: true,
		Rule: "seeded SAM files with non-conflicting 1-4 record queries (40% emphasis on several records carrying insertions with short anchors, either record order, N-skips next to insertions, insertions at reference position 0 and L) x skip-insertions x omit-reference x window x wrap x threads, directory mode in-process and stdout mode through the binary; " +
			"non-trivial = query set has an insertion or a multi-record query; distinct = (max records, insertion count class, insertion owner pattern, min anchor class, options)",
		Assumptions: []string{
			"the same insertion carried by two overlapping records is not generated (\"conflicting\" is undefined for it)",
			"expected pair is built from the records by an independent model (per-record CIGAR projection + insertion list)",
		},
		MinNontriv: 40,
		Cases: func(tier string) int {
			if tier == "thorough" {
				return 400000
			}
			return 4000
		},
		Run: runC02,
	})
}

// parsePairFile splits a toPairAlign output file into (header, sequence) records.
func parseFasta(text string) (ids []string, seqs []string, lineLens [][]int) {
	cur := -1
	for _, l := range strings.Split(text, "\n") {
		if strings.HasPrefix(l, ">") {
			ids = append(ids, l[1:])
			seqs = append(seqs, "")
			lineLens = append(lineLens, nil)
			cur++
		} else if cur >= 0 && l != "" {
			seqs[cur] += l
			lineLens[cur] = append(lineLens[cur], len(l))
		}
	}
	return
}

func degap(s string) string { return strings.ReplaceAll(s, "-", "") }

// dropRefGapCols removes from q the columns where r has '-'.
func dropRefGapCols(r, q string) string {
	var sb strings.Builder
	for i := 0; i < len(r) && i < len(q); i++ {
		if r[i] != '-' {
			sb.WriteByte(q[i])
		}
	}
	return sb.String()
}

func c02Profile(r *fw.Rng) gen.SamProfile {
	pr := gen.DefaultSamProfile()
	pr.MaxSegs = 4
	pr.MaxQueries = 6
	if r.Chance(0.4) {
		// insertion-heavy, short anchors
		pr.PIns = 0.15
		pr.MaxIndel = 6
		pr.PDel = 0.05
		pr.PSkip = 0.04
	}
	return pr
}

func runC02(c *fw.Ctx, idx int) fw.Result {
	var res fw.Result
	r := fw.NewRng(c.Seed, "C02", idx)
	L := genomeLen(r, c.Thorough())
	ref := gen.Genome(r, L)
	pr := c02Profile(r)
	if idx%50 == 0 {
		// a batch of many queries over a longer reference: more than three pipe buffers of output
		// for the stdout sample below
		if L < 300 {
			L = r.Range(300, 600)
			ref = gen.Genome(r, L)
		}
		pr.MaxQueries = 120
	}
	if L > 3000 {
		pr.MaxQueries = 3
		res.Count("genome_scale_cases", 1)
	}
	sf := gen.MakeSam(r, ref, pr)
	for tries := 0; idx%50 == 0 && L <= 3000 && tries < 5 && len(sf.Queries) < 40; tries++ {
		sf = gen.MakeSam(r, ref, pr)
	}
	if len(sf.Queries) >= 2 && r.Chance(0.15) {
		// a query whose name is another query's name plus ".fasta" (names derived from file names):
		// the two are different queries and get different files
		j := r.Intn(len(sf.Queries) - 1)
		k := j + 1 + r.Intn(len(sf.Queries)-j-1)
		old, nn := sf.Queries[k].Name, sf.Queries[j].Name+".fasta"
		if !strings.Contains(sf.Text, "\n"+nn+"\t") {
			sf.Text = strings.ReplaceAll(sf.Text, "\n"+old+"\t", "\n"+nn+"\t")
			sf.Queries[k].Name = nn
			for ri := range sf.Queries[k].Recs {
				sf.Queries[k].Recs[ri].Name = nn
			}
			res.Count("cases_with_query_named_like_a_file", 1)
		}
	}
	sf.Text = noFinalNL(r, sf.Text)
	omitIns := r.Chance(0.25)
	omitRef := r.Chance(0.25)
	s, e, wk := window(r, L)
	wrap := pickWrap(r, L)
	threads := pickThreads(r)
	refFasta := gen.RefFasta(sf.RefName, ref, []int{0, 60, 7}[r.Intn(3)])
	dir := filepath.Join(c.Tmp, fmt.Sprintf("c02-%d", idx))

	var stale map[string]string
	if idx%4 == 1 {
		// the output directory is reused: it already holds longer files for the same queries
		stale = map[string]string{}
		for _, q := range sf.Queries {
			stale[strings.ReplaceAll(q.Name, "/", "_")+".fasta"] = staleContent(3*L + 600)
		}
		res.Count("cases_with_reused_output_directory", 1)
	}
	files, err := run.ToPairAlignDirStale(sf.Text, refFasta, dir, wrap, s, e, omitRef, omitIns, threads, stale)
	res.Evals++
	padOut, perr := run.ToMultiAlign(sf.Text, -1, -1, -1, true, 1)
	res.Evals++
	_, padRows, _ := parseFasta(padOut)
	argv := []string{"sam", "toPairAlign", fmt.Sprintf("--start=%d", s), fmt.Sprintf("--end=%d", e), fmt.Sprintf("--skip-insertions=%v", omitIns), fmt.Sprintf("--omit-reference=%v", omitRef), fmt.Sprintf("--wrap=%d", wrap), fmt.Sprintf("-t=%d", threads)}
	inFiles := map[string]string{"in.sam": sf.Text, "ref.fasta": refFasta}
	if err != nil || perr != nil {
		res.Fail("error-on-valid-input", fmt.Sprintf("error on valid input: %v %v", err, perr), inFiles, argv)
		return res
	}
	if len(files) != len(sf.Queries) {
		res.Fail("file-count", fmt.Sprintf("expected %d per-query files, found %d", len(sf.Queries), len(files)), inFiles, argv)
		return res
	}
	maxRecs, totalIns, multiWithIns := 0, 0, 0
	minAnchor := 99
	ownerPat := map[int]bool{}
	lo, hi := 1, L
	if s != -1 {
		lo = s
	}
	if e != -1 {
		hi = e
	}
	for qi, q := range sf.Queries {
		expRef, expQ, nIns := model.PairAlign(q, ref)
		totalIns += nIns
		if len(q.Recs) > maxRecs {
			maxRecs = len(q.Recs)
		}
		owners := 0
		for ri, rc := range q.Recs {
			_, ins := model.ProjectRecord(rc, L)
			if len(ins) > 0 {
				owners++
				ownerPat[ri] = true
			}
		}
		if len(q.Recs) > 1 && nIns > 0 {
			multiWithIns++
		}
		_ = minAnchor
		class := "single-record"
		if len(q.Recs) > 1 {
			class = "multi-record"
			if nIns > 0 {
				class = "multi-record-with-insertion"
			}
		}
		fname := strings.ReplaceAll(q.Name, "/", "_") + ".fasta"
		text, ok := files[fname]
		if !ok {
			res.Fail("file-name", "no output file "+fname+" for query "+q.Name, inFiles, argv)
			continue
		}
		ids, seqs, lineLens := parseFasta(text)
		want := 2
		if omitRef {
			want = 1
		}
		fl := map[string]string{"in.sam": sf.Text, "ref.fasta": refFasta, "observed_" + fname: text}
		if len(ids) != want {
			res.Fail(class+":record-count", fmt.Sprintf("%s: expected %d records, found %d", fname, want, len(ids)), fl, argv)
			continue
		}
		var obsRef, obsQ string
		if omitRef {
			obsQ = seqs[0]
			if ids[0] != q.Name {
				res.Fail(class+":header", "query header mismatch", fl, argv)
			}
		} else {
			obsRef, obsQ = seqs[0], seqs[1]
			if ids[0] != sf.RefName || ids[1] != q.Name {
				res.Fail(class+":header", fmt.Sprintf("headers %q, expected [%s %s]", ids, sf.RefName, q.Name), fl, argv)
			}
		}
		// expected rows under the options
		eR, eQ := expRef, expQ
		if omitIns {
			eQ = dropRefGapCols(expRef, expQ)
			eR = ref
		}
		if wk != "none" {
			eR, eQ = model.CutPair(eR, eQ, lo, hi)
		}
		fl["expected_ref_row.txt"] = eR
		fl["expected_query_row.txt"] = eQ
		// wrap layout
		if wrap > 0 {
			for _, ll := range lineLens {
				for k, n := range ll {
					if (k < len(ll)-1 && n != wrap) || n > wrap || n == 0 {
						res.Fail(class+":wrap", fmt.Sprintf("%s: line lengths %v do not follow --wrap %d", fname, ll, wrap), fl, argv)
						break
					}
				}
			}
		} else {
			for _, ll := range lineLens {
				if len(ll) != 1 {
					res.Fail(class+":wrap", "unwrapped output spans several lines", fl, argv)
				}
			}
		}
		if !omitRef {
			if len(obsRef) != len(obsQ) {
				res.Fail(class+":row-lengths", fmt.Sprintf("%s: reference row %d columns, query row %d", fname, len(obsRef), len(obsQ)), fl, argv)
				continue
			}
			if degap(obsRef) != ref[lo-1:hi] {
				res.Fail(class+":degapped-reference", fname+": reference row without gaps is not the reference window: "+firstDiff(ref[lo-1:hi], degap(obsRef)), fl, argv)
				continue
			}
			if obsRef != eR {
				res.Fail(class+":insertion-columns", fname+": reference-row gap columns are not the query's insertion columns: "+firstDiff(eR, obsRef), fl, argv)
				continue
			}
		}
		if obsQ != eQ {
			res.Fail(class+":query-row", fname+": query row differs from the true alignment: "+firstDiff(eQ, obsQ), fl, argv)
			continue
		}
		// relation to toMultiAlign --pad (both observed)
		if !omitRef && qi < len(padRows) {
			proj := dropRefGapCols(obsRef, obsQ)
			if proj != padRows[qi][lo-1:hi] {
				res.Fail(class+":pad-relation", fname+": query row without reference-gap columns differs from the toMultiAlign --pad row: "+firstDiff(padRows[qi][lo-1:hi], proj), fl, argv)
			}
		}
		res.Count("queries_checked", 1)
		res.Count("columns_compared", len(obsQ))
	}
	res.Count("insertions", totalIns)
	res.Count("multi_record_queries_with_insertions", multiWithIns)
	res.Count("opt_window_"+wk, 1)
	if omitIns {
		res.Count("opt_skip_insertions", 1)
	}
	if omitRef {
		res.Count("opt_omit_reference", 1)
	}
	if totalIns > 0 || maxRecs > 1 {
		ic := totalIns
		if ic > 3 {
			ic = 3
		}
		op := ""
		for i := 0; i < 4; i++ {
			if ownerPat[i] {
				op += fmt.Sprint(i)
			}
		}
		res.Sig(fmt.Sprintf("%d|%d|%s|%s|%v%v%s%v", maxRecs, ic, op, opSig(sf.OpHist), omitIns, omitRef, wk, wrap > 0))
	}
	// stdout mode through the binary (single thread: record order under threads is C12's business)
	if idx%10 == 0 && c.Bin != "" {
		d := filepath.Join(c.Tmp, fmt.Sprintf("c02b-%d", idx))
		os.MkdirAll(d, 0755)
		os.WriteFile(filepath.Join(d, "in.sam"), []byte(sf.Text), 0644)
		os.WriteFile(filepath.Join(d, "ref.fasta"), []byte(refFasta), 0644)
		args := []string{"sam", "toPairAlign", "-r", filepath.Join(d, "ref.fasta"), "-o", "stdout", "-t", fmt.Sprint(threads)}
		var stdin []byte
		if idx%20 == 10 {
			stdin = []byte(sf.Text)
		} else {
			args = append(args, "-s", filepath.Join(d, "in.sam"))
		}
		if s != -1 {
			args = append(args, "--start", fmt.Sprint(s))
		}
		if e != -1 {
			args = append(args, "--end", fmt.Sprint(e))
		}
		if wrap > 0 {
			args = append(args, "--wrap", fmt.Sprint(wrap))
		}
		args = boolFlag(args, "skip-insertions", omitIns, idx%30 == 0)
		args = boolFlag(args, "omit-reference", omitRef, idx%30 == 10)
		// the reader of the pipe is slow: every byte must have been handed over before the exit
		br := fw.RunBinSlowPipe(c.Bin, args, stdin, nil, "", 40*time.Second)
		if len(sf.Queries) >= 30 && stdin == nil {
			// directory mode with many queries and few file descriptors to spare: one file per
			// query must not mean one open descriptor per query
			od := filepath.Join(d, "pairs")
			dargs := append([]string{"--nofile=20", c.Bin}, args...)
			for i := range dargs {
				if dargs[i] == "stdout" && i > 0 && dargs[i-1] == "-o" {
					dargs[i] = od
				}
			}
			bd := fw.RunBin("prlimit", dargs, nil, nil, "", 40*time.Second)
			res.Evals++
			res.Count("binary_directory_runs_with_20_descriptors", 1)
			if bd.TimedOut {
				binHang(&res, bd, "toPairAlign -o dir", map[string]string{"in.sam": sf.Text, "ref.fasta": refFasta}, dargs)
			} else {
				bad := ""
				if bd.Exit != 0 {
					bad = fmt.Sprintf("exit %d: %s", bd.Exit, clipStr(string(bd.Stderr), 300))
				}
				for _, q := range sf.Queries {
					fn := strings.ReplaceAll(q.Name, "/", "_") + ".fasta"
					got, _ := os.ReadFile(filepath.Join(od, fn))
					if bad == "" && string(got) != files[fn] {
						bad = fn + " differs from the entry point's file: " + firstDiff(files[fn], string(got))
					}
				}
				if bad != "" {
					res.Fail("directory-few-descriptors", fmt.Sprintf("toPairAlign -o <dir> for %d queries with RLIMIT_NOFILE=20: %s", len(sf.Queries), bad),
						map[string]string{"in.sam": sf.Text, "ref.fasta": refFasta, "stderr.txt": string(bd.Stderr)}, dargs)
				}
			}
		}
		if idx%30 == 20 && stdin == nil {
			// -o left out: the per-query files go to the current directory
			cwd := filepath.Join(d, "cwd")
			os.MkdirAll(cwd, 0755)
			var nargs []string
			for i := 0; i < len(args); i++ {
				if args[i] == "-o" && i+1 < len(args) && args[i+1] == "stdout" {
					i++
					continue
				}
				nargs = append(nargs, args[i])
			}
			bn := fw.RunBin(c.Bin, nargs, nil, nil, cwd, 40*time.Second)
			res.Evals++
			res.Count("binary_runs_without_output_option", 1)
			if bn.TimedOut {
				binHang(&res, bn, "toPairAlign (no -o)", map[string]string{"in.sam": sf.Text, "ref.fasta": refFasta}, nargs)
			} else {
				bad := ""
				if bn.Exit != 0 {
					bad = fmt.Sprintf("exit %d: %s", bn.Exit, clipStr(string(bn.Stderr), 300))
				}
				for _, q := range sf.Queries {
					fn := strings.ReplaceAll(q.Name, "/", "_") + ".fasta"
					got, _ := os.ReadFile(filepath.Join(cwd, fn))
					if bad == "" && string(got) != files[fn] {
						bad = fn + " in the working directory differs from the entry point's file: " + firstDiff(files[fn], string(got))
					}
				}
				if bad != "" {
					res.Fail("no-output-option", "toPairAlign without -o (per-query files in the current directory): "+bad,
						map[string]string{"in.sam": sf.Text, "ref.fasta": refFasta, "stderr.txt": string(bn.Stderr)}, nargs)
				}
			}
		}
		os.RemoveAll(d)
		res.Evals++
		res.Count("binary_stdout_runs", 1)
		if len(br.Stdout) > 12288 {
			res.Count("binary_stdout_runs_larger_than_3_pipe_buffers", 1)
		}
		// stdout must be the concatenation of the per-query files in input order
		var want strings.Builder
		for _, q := range sf.Queries {
			want.WriteString(files[strings.ReplaceAll(q.Name, "/", "_")+".fasta"])
		}
		if br.TimedOut {
			binHang(&res, br, "toPairAlign -o stdout", map[string]string{"in.sam": sf.Text, "ref.fasta": refFasta}, args)
		} else if br.Exit != 0 || string(br.Stdout) != want.String() {
			res.Fail("stdout-vs-directory", fmt.Sprintf("toPairAlign -o stdout (exit %d) differs from the concatenated per-query files: %s", br.Exit, firstDiff(want.String(), string(br.Stdout))),
				map[string]string{"in.sam": sf.Text, "ref.fasta": refFasta, "stdout.txt": string(br.Stdout), "stderr.txt": string(br.Stderr)}, args)
		}
	}
	if idx%8 == 3 && len(res.Viol) == 0 {
		c02EqualsInSeq(c, &res, r, idx, sf, ref, refFasta)
	}
	if idx < 3 {
		res.Sample = map[string]interface{}{"sam": sf.Text, "argv": argv, "observed_files": files}
	}
	return res
}

// c02EqualsInSeq: SAM allows '=' in SEQ for a base identical to the reference. What the
// converters write for such a column is not stated by the property; that the three views of
// one query (toPairAlign, toPairAlign --skip-insertions, toMultiAlign --pad) agree on it is.
// Relation only: no model judges the rows here.
func c02EqualsInSeq(c *fw.Ctx, res *fw.Result, r *fw.Rng, idx int, sf gen.SamFile, ref, refFasta string) {
	var sb strings.Builder
	sb.WriteString(fmt.Sprintf("@SQ\tSN:%s\tLN:%d\n", sf.RefName, len(ref)))
	nEq := 0
	for _, q := range sf.Queries {
		for _, rc := range q.Recs {
			seq := []byte(rc.Seq)
			qp, rp := 0, rc.Pos
			for _, o := range rc.Cigar {
				switch o.T {
				case 'M', '=':
					for k := 0; k < o.N; k++ {
						if qp < len(seq) && rp < len(ref) && seq[qp] == ref[rp] && r.Chance(0.3) {
							seq[qp] = '='
							nEq++
						}
						qp++
						rp++
					}
				case 'X':
					qp += o.N
					rp += o.N
				case 'I', 'S':
					qp += o.N
				case 'D', 'N':
					rp += o.N
				}
			}
			sb.WriteString(fmt.Sprintf("%s\t%d\t%s\t%d\t60\t%s\t*\t0\t0\t%s\t*\n", rc.Name, rc.Flag, sf.RefName, rc.Pos+1, rc.CigarString(), seq))
		}
	}
	if nEq == 0 {
		return
	}
	text := sb.String()
	dir := filepath.Join(c.Tmp, fmt.Sprintf("c02eq-%d", idx))
	defer os.RemoveAll(dir)
	full, e1 := run.ToPairAlignDir(text, refFasta, dir, -1, -1, -1, false, false, 2)
	skip, e2 := run.ToPairAlignDir(text, refFasta, dir, -1, -1, -1, false, true, 2)
	padOut, e3 := run.ToMultiAlign(text, -1, -1, -1, true, 1)
	res.Evals += 3
	res.Count("cases_with_equals_sign_in_SEQ", 1)
	fl := map[string]string{"in.sam": text, "ref.fasta": refFasta}
	argv := []string{"sam", "toPairAlign / toPairAlign --skip-insertions / toMultiAlign --pad", "SEQ with '='"}
	if e1 != nil || e2 != nil || e3 != nil {
		res.Fail("equals-in-seq:error-on-valid-input", fmt.Sprint(e1, e2, e3), fl, argv)
		return
	}
	_, padRows, _ := parseFasta(padOut)
	if len(padRows) != len(sf.Queries) {
		res.Fail("equals-in-seq:rows", "toMultiAlign --pad did not give one row per query", fl, argv)
		return
	}
	for qi, q := range sf.Queries {
		fname := strings.ReplaceAll(q.Name, "/", "_") + ".fasta"
		_, a, _ := parseFasta(full[fname])
		_, b, _ := parseFasta(skip[fname])
		if len(a) != 2 || len(b) != 2 {
			res.Fail("equals-in-seq:record-count", fname+": expected reference and query rows", fl, argv)
			return
		}
		collapsed := dropRefGapCols(a[0], a[1])
		if collapsed != padRows[qi] || b[1] != padRows[qi] {
			fl["observed_"+fname] = full[fname]
			fl["observed_skip_insertions_"+fname] = skip[fname]
			fl["observed_multialign_pad.fasta"] = padOut
			res.Fail("equals-in-seq:relation", fmt.Sprintf("query %s with '=' in SEQ: the toPairAlign row without the reference-gap columns (%s), the --skip-insertions row (%s) and the toMultiAlign --pad row (%s) differ", q.Name, clipStr(collapsed, 80), clipStr(b[1], 80), clipStr(padRows[qi], 80)), fl, argv)
			return
		}
	}
}
