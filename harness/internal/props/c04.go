package props

import (
	"fmt"
	"os"
	"path/filepath"
	"sort"
	"strconv"
	"strings"
	"time"

	"verifharness/internal/fw"
	"verifharness/internal/gen"
	"verifharness/internal/model"
	"verifharness/internal/run"
)

func init() {
	fw.Register(&fw.Property{
		ID:         "C04",
		Level:      "exploration",
		Jitter:     true,
		RaceSample: true,
		Rule: "genomes with abstract annotations of 1-6 coding features (strand +/-, 1-3 segments with boundaries inside codons, codon_start 1-3, overlapping/abutting/slippage joins, named and (GFF3) unnamed CDS with named mature_protein_region children, features touching position 1 and L) rendered to GenBank or GFF3; queries with A/C/G/T and IUPAC substitutions, gaps, '?' and insertions; FASTA form (variants) and SAM form (sam variants); --append-snps on and off; reference by ID or from the annotation; " +
			"distinct non-trivial = distinct (format, form, strands, segment counts, unnamed/children present, and which of {intergenic nuc, synonymous nuc in CDS, aa, aa with 2-3 SNPs, resolved ambiguity codon, unnamed-only position, position in two features} occurred)",
		Assumptions: []string{"every generated named CDS ends in a real stop codon (GenBank /translation convention) unless the no-stop option drew otherwise; the reference is A/C/G/T except in the 30% of cases that place IUPAC codes where no expansion changes a named protein: inside codons (GCN, CTR, YTA) and anywhere outside the named coding positions",
			"duplicate identical records and the order of records at one position are not judged here (C12/C14)",
			"codons containing '-' or '?' in the query have no defined translation: no aa record is demanded and none is allowed"},
		MinNontriv: 60,
		Cases: func(tier string) int {
			if tier == "thorough" {
				return 300000
			}
			return 3000
		},
		Run: runC04,
	})
}

// annoCase is a generated annotation + alignment input shared by C04/C05/C11/C13/C14/C15.
type annoCase struct {
	an      gen.Annotation
	format  string // gb / gff
	annoTxt string
	form    string // fasta / sam
	// fasta form
	msa    gen.VarMSA
	msaTxt string
	refID  string // "" = reference from the annotation
	// sam form
	sf      gen.SamFile
	refTxt  string
	refFile bool
	names   []string
	pairs   []model.PairView
}

func gbTranslate(ref string) func(gen.Feature) string {
	return func(f gen.Feature) string { return model.TranslateFeature(ref, f) }
}

func makeAnnoCase(r *fw.Rng, thorough bool, format, form string, vp gen.VarProfile, nqMax int, opts gen.AnnoOpts) annoCase {
	var ac annoCase
	L := r.Range(12, 120)
	if r.Chance(0.25) {
		L = r.Range(121, 600)
	}
	if thorough && r.Chance(0.03) {
		L = r.Range(601, 3000)
	}
	if opts.GenomeLen > 0 {
		L = opts.GenomeLen
	}
	if format == "gb" {
		opts.AllowUnnamed = false
	}
	ac.an = gen.MakeAnnotation(r, L, opts)
	ac.format, ac.form = format, form
	if opts.QuoteNames && format == "gff" && r.Chance(0.25) {
		// a GFF3 written GTF-style: Name="spike" with the quotes in the file. The name is what stands
		// after the '=', quotes and all, wherever it is printed
		for i := range ac.an.Feats {
			if ac.an.Feats[i].Name != "" && !strings.ContainsAny(ac.an.Feats[i].Name, "\"%") {
				old := ac.an.Feats[i].Name
				for j := range ac.an.Feats {
					if ac.an.Feats[j].Name == old {
						ac.an.Feats[j].Name = "\"" + old + "\""
					}
				}
				break
			}
		}
	}
	if opts.AmbigRef && r.Chance(0.3) {
		ambiguateReference(r, &ac.an)
	}
	ref := ac.an.Ref
	if form == "fasta" {
		nq := r.Range(1, nqMax)
		if opts.ExactQueries > 0 {
			nq = opts.ExactQueries
		}
		fromAnno := r.Chance(0.25)
		if fromAnno {
			vp.MaxInsSites = 0
		}
		ac.msa = gen.MakeVariantMSA(r, ref, nq, vp)
		if fromAnno && r.Chance(0.3) {
			// the reference is taken from the annotation; a query may well carry the name of the
			// annotation's sequence record and is an ordinary query then
			k := r.Intn(len(ac.msa.Rows))
			ac.msa.Rows[k].ID, ac.msa.Rows[k].Desc = ac.an.RefName, ac.an.RefName
		}
		recs := append([]gen.FastaRec{}, ac.msa.Rows...)
		if !fromAnno && len(recs) > 0 && r.Chance(0.25) {
			// a query whose name only starts with (or is a prefix of) the reference's: the reference
			// is the record whose ID equals --reference, wherever it is in the file
			k := r.Intn(len(recs))
			nm := ac.an.RefName + []string{".v2", "0", "_alt", "/2"}[r.Intn(4)]
			if r.Chance(0.25) && len(ac.an.RefName) > 1 {
				nm = ac.an.RefName[:len(ac.an.RefName)-1]
			}
			recs[k].ID, recs[k].Desc = nm, nm
			ac.msa.Rows[k].ID, ac.msa.Rows[k].Desc = nm, nm
		}
		if !fromAnno {
			ac.refID = ac.an.RefName
			refRec := gen.FastaRec{ID: ac.an.RefName, Desc: ac.an.RefName + []string{" reference genome", "\tWuhan-Hu-1 complete genome", "", "  x"}[r.Intn(4)], Seq: ac.msa.RefRow}
			at := []int{0, len(recs) / 2, len(recs)}[r.Intn(3)]
			recs = append(recs[:at], append([]gen.FastaRec{refRec}, recs[at:]...)...)
		}
		ac.msaTxt = gen.RenderFasta(recs, gen.PickLineWidth(r, len(ac.msa.RefRow)))
		for _, q := range ac.msa.Rows {
			ac.names = append(ac.names, q.ID)
			ac.pairs = append(ac.pairs, model.NewPairView(ac.msa.RefRow, q.Seq))
		}
	} else {
		pr := gen.DefaultSamProfile()
		pr.MaxQueries = nqMax
		pr.PSub, pr.PAmbig = vp.PSub, vp.PAmbig
		pr.PDel, pr.PIns = 0.03, 0.03
		pr.AllowConflict = opts.SamConflicts && r.Chance(0.4)
		ac.sf = gen.MakeSam(r, ref, pr)
		// the SAM header's reference name must match the annotation's
		ac.sf.Text = strings.ReplaceAll(ac.sf.Text, "SN:"+ac.sf.RefName+"\t", "SN:"+ac.an.RefName+"\t")
		ac.sf.Text = strings.ReplaceAll(ac.sf.Text, "\t"+ac.sf.RefName+"\t", "\t"+ac.an.RefName+"\t")
		ac.sf.RefName = ac.an.RefName
		if opts.AllNQuery && len(ac.sf.Queries) > 0 && r.Chance(0.08) {
			// a failed sample: every called base of one query is N; its CIGAR (and with it its
			// insertions and deletions) is what the aligner reported for the reads all the same
			qi := r.Intn(len(ac.sf.Queries))
			q := &ac.sf.Queries[qi]
			lines := strings.Split(ac.sf.Text, "\n")
			for ri := range q.Recs {
				old := q.Recs[ri].Seq
				nn := strings.Repeat("N", len(old))
				for li, l := range lines {
					f := strings.Split(l, "\t")
					if len(f) >= 11 && f[0] == q.Name && f[9] == old {
						f[9] = nn
						lines[li] = strings.Join(f, "\t")
					}
				}
				q.Recs[ri].Seq = nn
			}
			q.Truth = nil // the records, not the generator's true alignment, describe this query now
			ac.sf.Text = strings.Join(lines, "\n")
		}
		ac.refFile = r.Chance(0.7)
		ac.refTxt = gen.RefFasta(ac.an.RefName, ref, []int{0, 60}[r.Intn(2)])
		for _, q := range ac.sf.Queries {
			rr, qr, _ := model.PairAlign(q, ref)
			ac.names = append(ac.names, q.Name)
			ac.pairs = append(ac.pairs, model.NewPairView(rr, qr))
		}
	}
	if format == "gb" {
		ac.annoTxt = gen.RenderGenBank(r, ac.an, gbTranslate(ref))
	} else {
		withFasta := true
		fastaSeq := ref
		if (form == "fasta" && ac.refID != "") || (form == "sam" && ac.refFile) {
			withFasta = r.Chance(0.6)
			if r.Chance(0.3) {
				// the reference is given separately, so the sequence embedded in the gff is not
				// used: embed a slightly different genome of the same length (an older version)
				b := []byte(ref)
				for k := 0; k < 1+len(b)/15; k++ {
					i := r.Intn(len(b))
					b[i] = gen.OtherBase(r, b[i])
				}
				fastaSeq = string(b)
			}
		}
		ac.annoTxt = gen.RenderGFFSeq(r, ac.an, withFasta, fastaSeq)
	}
	ac.annoTxt = noFinalNL(r, ac.annoTxt)
	if ac.msaTxt != "" {
		ac.msaTxt = noFinalNL(r, ac.msaTxt)
	}
	if ac.refTxt != "" {
		ac.refTxt = noFinalNL(r, ac.refTxt)
	}
	if opts.CRLF && r.Chance(0.12) {
		// an annotation file that went through a Windows editor
		ac.annoTxt = strings.ReplaceAll(ac.annoTxt, "\n", "\r\n")
	}
	return ac
}

// runVariants executes the case through the matching entry point.
func (ac *annoCase) runVariants(start, end int, aggregate bool, threshold float64, appendSNP bool, threads int) (string, error) {
	if ac.form == "fasta" {
		return run.Variants(ac.msaTxt, ac.refID, ac.annoTxt, ac.format, start, end, aggregate, threshold, appendSNP, threads)
	}
	return run.SamVariants(ac.sf.Text, ac.refTxt, ac.refFile, ac.annoTxt, ac.format, start, end, aggregate, threshold, appendSNP, threads)
}

func (ac *annoCase) files() map[string]string {
	f := map[string]string{"annotation." + ac.format: ac.annoTxt}
	if ac.form == "fasta" {
		f["msa.fasta"] = ac.msaTxt
	} else {
		f["in.sam"] = ac.sf.Text
		f["ref.fasta"] = ac.refTxt
	}
	return f
}

func (ac *annoCase) argv(extra ...string) []string {
	var a []string
	if ac.form == "fasta" {
		a = []string{"variants", "--msa", "msa.fasta", "-r", ac.refID, "-a", "annotation." + ac.format}
	} else {
		a = []string{"sam", "variants", "-s", "in.sam", "-a", "annotation." + ac.format}
		if ac.refFile {
			a = append(a, "-r", "ref.fasta")
		}
	}
	return append(a, extra...)
}

func stripParens(s string) string {
	if i := strings.IndexByte(s, '('); i >= 0 {
		return s[:i]
	}
	return s
}

func runC04(c *fw.Ctx, idx int) fw.Result {
	var res fw.Result
	r := fw.NewRng(c.Seed, "C04", idx)
	format := []string{"gb", "gff"}[r.Intn(2)]
	form := "fasta"
	if r.Chance(0.25) {
		form = "sam"
	}
	opts := gen.AnnoOpts{MaxFeats: 6, AllowUnnamed: true, AllowSlip: true, SplitCodons: true, Isoforms: true, Rotate: true, NoStop: true, DupNames: true, CRLF: true, AmbigRef: true, NoFeatures: true}
	ac := makeAnnoCase(r, c.Thorough(), format, form, gen.DefaultVarProfile(), 8, opts)
	threads := pickThreads(r)
	outA, errA := ac.runVariants(-1, -1, false, 0, true, threads)
	outB, errB := ac.runVariants(-1, -1, false, 0, false, threads)
	res.Evals += 2
	files := ac.files()
	files["observed_append_snps.csv"] = outA
	files["observed_plain.csv"] = outB
	argv := ac.argv("--append-snps")
	class := format + ":" + form
	if errA != nil || errB != nil {
		res.Fail(class+":error-on-valid-input", fmt.Sprintf("variants returned an error on valid input: %v / %v", errA, errB), files, argv)
		return res
	}
	if idx%20 == 6 {
		ac.binVariants(c, &res, idx, -1, -1, false, 0, true, threads, outA)
	}
	if idx%10 == 3 && form == "fasta" && ac.refID != "" && c.Bin != "" {
		// the alignment piped in with the named reference NOT at the front of the stream: the
		// command may refuse this, or answer as it does for the file; it may not present mutations
		// relative to some other record as those relative to --reference
		first := strings.Fields(strings.TrimPrefix(strings.SplitN(ac.msaTxt, "\n", 2)[0], ">"))
		if len(first) > 0 && first[0] != ac.refID {
			d := filepath.Join(c.Tmp, fmt.Sprintf("c04-stdin-%d", idx))
			os.MkdirAll(d, 0755)
			ap := filepath.Join(d, "anno."+format)
			os.WriteFile(ap, []byte(ac.annoTxt), 0644)
			sargv := []string{"variants", "-a", ap, "-r", ac.refID, "--append-snps", "-t", fmt.Sprint(threads)}
			br := fw.RunBin(c.Bin, sargv, []byte(ac.msaTxt), nil, d, 40*time.Second)
			os.RemoveAll(d)
			res.Evals++
			res.Count("binary_stdin_runs_with_reference_not_first", 1)
			if br.TimedOut {
				binHang(&res, br, "variants (stdin, reference not first)", files, sargv)
			} else if br.Exit == 0 {
				res.Count("binary_stdin_runs_with_reference_not_first_accepted", 1)
				if string(br.Stdout) != outA {
					f := cloneFiles(files)
					f["binary_stdin_output.csv"] = string(br.Stdout)
					res.Fail(class+":stdin-reference-not-first", "the alignment was piped in with --reference naming a record that is not the first; the command exited 0 with mutations that are not those relative to the named reference: "+firstDiff(outA, string(br.Stdout)), f, sargv)
				}
			}
		}
	}
	namesA, mutsA, okA := model.ParseVariantsCSV(outA)
	namesB, mutsB, okB := model.ParseVariantsCSV(outB)
	if !okA || !okB {
		res.Fail(class+":output-format", "variants output could not be parsed", files, argv)
		return res
	}
	if strings.Join(namesA, "\n") != strings.Join(ac.names, "\n") || strings.Join(namesB, "\n") != strings.Join(ac.names, "\n") {
		res.Fail(class+":rows", fmt.Sprintf("output rows %v, expected one per query in input order %v", namesA, ac.names), files, argv)
		return res
	}
	named := ac.an.Named()
	featByName := map[string]gen.Feature{}
	for _, f := range named {
		featByName[f.Name] = f
	}
	// coverage map: which features (named or not) contain a position
	L := len(ac.an.Ref)
	inNamed := make([]int, L+1)
	inAny := make([]int, L+1)
	for _, f := range ac.an.Feats {
		seen := map[int]bool{}
		for _, p := range f.CodingPositions() {
			if seen[p] {
				continue
			}
			seen[p] = true
			inAny[p]++
			if f.Name != "" {
				inNamed[p]++
			}
		}
	}
	occ := map[string]bool{}
	for qi, pv := range ac.pairs {
		// (a) SNP completeness
		exp := map[int]model.SNP{}
		for _, s := range pv.SNPs() {
			exp[s.Pos] = s
		}
		rep := map[int]model.Mut{}
		var aaObs []model.AACall
		for _, m := range mutsA[qi] {
			switch m.Kind {
			case "nuc":
				rep[m.Pos] = m
				if inNamed[m.Pos] == 0 {
					occ["intergenic"] = true
					if inAny[m.Pos] > 0 {
						occ["unnamedonly"] = true
					}
				} else {
					occ["syn"] = true
				}
			case "aa":
				aaObs = append(aaObs, model.AACall{Feature: m.Feature, K: m.K, R: m.R, Q: m.Q})
				for _, in := range m.Inner {
					rep[in.Pos] = in
				}
				if len(m.Inner) >= 2 {
					occ["aa2"] = true
				}
				occ["aa"] = true
			}
		}
		for p, s := range exp {
			m, ok := rep[p]
			if !ok {
				sub := "dropped-snp"
				if inNamed[p] == 0 && inAny[p] > 0 {
					sub = "dropped-snp-unnamed-cds"
				}
				res.Fail(class+":"+sub, fmt.Sprintf("query %s: reference position %d differs (%c vs %c) but no record mentions it", ac.names[qi], p, s.R, s.Q), files, argv)
				continue
			}
			if m.R != s.R || m.Q != s.Q {
				res.Fail(class+":allele", fmt.Sprintf("query %s: record %s does not carry the symbols %c/%c", ac.names[qi], m.Raw, s.R, s.Q), files, argv)
			}
			if inNamed[p] >= 2 {
				occ["twofeat"] = true
			}
		}
		for p, m := range rep {
			if _, ok := exp[p]; !ok {
				res.Fail(class+":invented-snp", fmt.Sprintf("query %s: record %s reports a position whose base sets are not disjoint", ac.names[qi], m.Raw), files, argv)
			}
		}
		res.Count("snp_positions_checked", len(exp))
		// (b) and (c): aa records are exactly the true translations
		want := map[string]bool{}
		for _, a := range pv.ExpectedAA(named) {
			want[a.String()] = true
		}
		got := map[string]bool{}
		for _, a := range aaObs {
			got[a.String()] = true
			f, ok := featByName[a.Feature]
			if !ok {
				res.Fail(class+":aa-unknown-feature", fmt.Sprintf("query %s: %s names no named feature of the annotation", ac.names[qi], a.String()), files, argv)
				continue
			}
			cod := pv.Codons(f)
			if a.K >= 1 && a.K <= len(cod) {
				ci := cod[a.K-1]
				amb := false
				for _, p := range ci.Positions {
					if !model.IsACGT(pv.QAt(p)) {
						amb = true
					}
				}
				if amb {
					occ["ambigresolved"] = true
				}
			}
		}
		for k := range got {
			if !want[k] {
				res.Fail(class+":aa-not-a-true-translation", fmt.Sprintf("query %s: %s is reported but is not an unambiguous translation difference", ac.names[qi], k), files, argv)
			}
		}
		for k := range want {
			if !got[k] {
				res.Fail(class+":aa-missing", fmt.Sprintf("query %s: %s is a true unambiguous amino-acid difference but is not reported", ac.names[qi], k), files, argv)
			}
		}
		res.Count("aa_records_checked", len(want))
		// plain run == append-snps run with the parentheses removed
		var a2, b2 []string
		for _, m := range mutsA[qi] {
			a2 = append(a2, stripParens(m.Raw))
		}
		for _, m := range mutsB[qi] {
			b2 = append(b2, m.Raw)
		}
		// (compared as multisets: the order of records that share a position is C12/C14's business)
		sort.Strings(a2)
		sort.Strings(b2)
		if strings.Join(a2, "|") != strings.Join(b2, "|") {
			res.Fail(class+":append-snps-relation", fmt.Sprintf("query %s: the list without --append-snps is not the --append-snps list with the parentheses removed", ac.names[qi]), files, argv)
		}
	}
	res.Count("queries", len(ac.pairs))
	// --aggregate --append-snps loses no position either: the positions mentioned over the whole
	// table are exactly those at which some query differs from the reference
	if idx%4 == 2 && len(res.Viol) == 0 {
		agg, errAgg := ac.runVariants(-1, -1, true, 0, true, threads)
		res.Evals++
		if errAgg != nil {
			res.Fail(class+":error-on-valid-input", "variants --aggregate returned an error on valid input: "+errAgg.Error(), files, argv)
		} else {
			want := map[int]bool{}
			for _, pv := range ac.pairs {
				for _, sn := range pv.SNPs() {
					want[sn.Pos] = true
				}
			}
			got := map[int]bool{}
			lines := strings.Split(strings.TrimSuffix(agg, "\n"), "\n")
			for _, l := range lines[1:] {
				i := strings.LastIndexByte(l, ',')
				if i < 0 {
					continue
				}
				if m, ok := model.ParseMutation(l[:i]); ok {
					if m.Kind == "nuc" {
						got[m.Pos] = true
					}
					for _, in := range m.Inner {
						got[in.Pos] = true
					}
				}
			}
			res.Count("aggregate_position_sets_checked", 1)
			for p := range want {
				if !got[p] {
					files["observed_aggregate_append_snps.csv"] = agg
					res.Fail(class+":aggregate-position-dropped", fmt.Sprintf("position %d differs from the reference in some query but is mentioned nowhere in the --aggregate --append-snps table", p), files, append(argv, "--aggregate"))
					break
				}
			}
			for p := range got {
				if !want[p] {
					files["observed_aggregate_append_snps.csv"] = agg
					res.Fail(class+":aggregate-position-invented", fmt.Sprintf("position %d is mentioned in the --aggregate --append-snps table but no query differs from the reference there", p), files, append(argv, "--aggregate"))
					break
				}
			}
		}
	}
	// signature
	strands, segs := "", ""
	unnamed, children := false, false
	for _, f := range ac.an.Feats {
		if f.Strand > 0 {
			strands += "+"
		} else {
			strands += "-"
		}
		segs += fmt.Sprint(len(f.Segs))
		if f.Name == "" {
			unnamed = true
		}
		if f.Kind == "mature" {
			children = true
		}
	}
	var ok []string
	for k := range occ {
		ok = append(ok, k)
	}
	sort.Strings(ok)
	if len(ok) > 0 {
		res.Sig(fmt.Sprintf("%s|%s|%s|%s|%v%v|%s", format, form, strands, segs, unnamed, children, strings.Join(ok, ",")))
	}
	for _, k := range ok {
		res.Count("cases_with_"+k, 1)
	}
	if idx < 2 {
		s := map[string]interface{}{"annotation": clipStr(ac.annoTxt, 1500), "argv": argv, "observed": clipStr(outA, 600)}
		if form == "fasta" {
			s["msa"] = clipStr(ac.msaTxt, 800)
		} else {
			s["sam"] = clipStr(ac.sf.Text, 800)
		}
		res.Sample = s
	}
	return res
}

// binVariants runs the case through the real binary with the given options and compares
// with the entry point's output.
func (ac *annoCase) binVariants(c *fw.Ctx, res *fw.Result, idx int, start, end int, aggregate bool, threshold float64, appendSNP bool, threads int, want string) {
	files := map[string]string{"anno." + ac.format: ac.annoTxt}
	if ac.form == "fasta" {
		files["msa.fasta"] = ac.msaTxt
	} else {
		files["in.sam"] = ac.sf.Text
		files["ref.fasta"] = ac.refTxt
	}
	useStdin := ac.form == "sam" && idx%2 == 0
	stdinTxt := ac.sf.Text
	if ac.form == "fasta" && fw.Mix(uint64(idx)+515)%2 == 0 {
		// the alignment piped in: with --reference the reference has to lead the stream, without it
		// (reference from the annotation) every record is a query
		first := strings.Fields(strings.TrimPrefix(strings.SplitN(ac.msaTxt, "\n", 2)[0], ">"))
		if ac.refID == "" || (len(first) > 0 && first[0] == ac.refID) {
			useStdin, stdinTxt = true, ac.msaTxt
			res.Count("binary_runs_with_the_alignment_on_stdin", 1)
		}
	}
	// a GenBank annotation may also be given through the older --genbank flag, which takes the
	// format from the flag and not from the file's name
	annoFlag, annoName := "-a", "anno."+ac.format
	if ac.format == "gb" && fw.Mix(uint64(idx)+606)%3 == 0 {
		annoFlag = "--genbank"
		annoName = []string{"anno.gb", "anno.genbank", "anno.gbk", "MN908947.3"}[fw.Mix(uint64(idx)+607)%4]
		files[annoName] = ac.annoTxt
		res.Count("binary_runs_with_genbank_flag", 1)
	}
	binSample(c, res, idx, "variants-"+ac.form, files, func(p func(string) string) []string {
		var a []string
		if ac.form == "fasta" {
			a = []string{"variants", annoFlag, p(annoName)}
			if !useStdin {
				a = append(a, "--msa", p("msa.fasta"))
			} else if fw.Mix(uint64(idx)+516)%2 == 0 {
				a = append(a, "--msa", "stdin")
			}
			if ac.refID != "" {
				a = append(a, "-r", ac.refID)
			}
		} else {
			a = []string{"sam", "variants", annoFlag, p(annoName)}
			if !useStdin {
				a = append(a, "-s", p("in.sam"))
			}
			if ac.refFile {
				a = append(a, "-r", p("ref.fasta"))
			}
		}
		a = append(a, "-t", fmt.Sprint(threads))
		if start != -1 {
			a = append(a, "--start", fmt.Sprint(start))
		}
		if end != -1 {
			a = append(a, "--end", fmt.Sprint(end))
		}
		if aggregate {
			a = append(a, "--aggregate", "--threshold", strconvFloat(threshold))
		}
		if appendSNP {
			a = append(a, "--append-snps")
		}
		return a
	}, stdinOrNil(useStdin, stdinTxt), map[bool]string{true: "", false: "-o"}[idx%3 == 0], want)
}

func stdinOrNil(use bool, s string) []byte {
	if use {
		return []byte(s)
	}
	return nil
}

func strconvFloat(f float64) string { return strconv.FormatFloat(f, 'g', -1, 64) }

// ambiguateReference puts IUPAC ambiguity codes into the reference: at coding positions where
// every expansion leaves every feature's protein unchanged (GCN is still Ala, CTR still Leu,
// YTA still Leu), so the reference protein is as well defined as before, and at positions outside
// the coding features, where a query base is a difference iff it is not one of the code's bases.
func ambiguateReference(r *fw.Rng, an *gen.Annotation) {
	ref := []byte(an.Ref)
	prot := func(f gen.Feature) string { return model.TranslateFeature(string(ref), f) }
	before := make([]string, len(an.Feats))
	for i, f := range an.Feats {
		before[i] = prot(f)
	}
	codesWith := map[byte]string{'A': "RMWDHVN", 'C': "YMSBHVN", 'G': "RKSBDVN", 'T': "YKWBDHN"}
	tries := r.Range(1, 8)
	if len(an.Feats) == 0 {
		return
	}
	for t := 0; t < tries; t++ {
		f := an.Feats[r.Intn(len(an.Feats))]
		pos := f.CodingPositions()
		p := pos[r.Intn(len(pos))]
		if r.Chance(0.5) {
			// anywhere in the genome: between features, inside unnamed ones, in bases skipped by a
			// phase or codon_start, where no protein constrains the code
			p = 1 + r.Intn(len(ref))
		}
		old := ref[p-1]
		cs, ok := codesWith[old]
		if !ok {
			continue
		}
		ref[p-1] = cs[r.Intn(len(cs))]
		same := true
		for i, g := range an.Feats {
			if prot(g) != before[i] {
				same = false
				break
			}
		}
		if !same {
			ref[p-1] = old
		}
	}
	an.Ref = string(ref)
}
