package props

import (
	"fmt"
	"os"
	"path/filepath"
	"strings"
	"time"

	"verifharness/internal/fw"
	"verifharness/internal/gen"
	"verifharness/internal/run"
)

func init() {
	fw.Register(&fw.Property{
		ID:         "C09",
		Level:      "exploration",
		Jitter:     true,
		RaceSample: true,
		Rule: "random topranking inputs of C08 with 1-6 queries and 1-30 targets and C08's option sets; relation over observed runs: updown list derives the CSVs from the query and target alignments, and topranking under (fasta,fasta), (csv,csv), (csv,fasta), (fasta,csv) must give byte-identical output with one row per query in query-file order; a 5% sample goes through the binary with .csv/.fasta/.fa suffixes; " +
			"distinct non-trivial = distinct (queries m, targets class, option mode, table) with m >= 2 or a mixed combination",
		Assumptions: []string{"the CSV is exactly what updown list writes for the same alignment and reference"},
		MinNontriv:  40,
		Cases: func(tier string) int {
			if tier == "thorough" {
				return 150000
			}
			return 2000
		},
		Run: runC09,
	})
}

func runC09(c *fw.Ctx, idx int) fw.Result {
	var res fw.Result
	r := fw.NewRng(c.Seed, "C09", idx)
	prof := gen.UpdownProfile{MaxQueries: 6, MaxTargets: 30, PAmbTract: 0.35, MultiHit: true}
	if idx%25 == 7 {
		// more queries than any channel of the pipeline holds (NumCPU, NumCPU+50)
		prof.MaxQueries = r.Range(20, 120)
	}
	if idx%40 == 11 {
		// genome-scale rows: SNP positions beyond 2^12, 10^4 and 2^14
		prof.Width = [2]int{9000, 14000}
		if r.Chance(0.3) {
			prof.Width = [2]int{16500, 31000}
		}
		prof.MaxTargets = 12
		res.Count("genome_scale_cases", 1)
	}
	in := gen.MakeUpdown(r, prof)
	if prof.Width[1] > 0 && len(in.Targets) >= 2 && r.Chance(0.5) {
		// a misaligned or unrelated target in the middle of the list: it differs from the reference
		// in every column, so its CSV row runs to a hundred kilobytes or more
		j := len(in.Targets) / 2
		b := []byte(in.Ref)
		for i := range b {
			b[i] = gen.OtherBase(r, in.Ref[i])
		}
		in.Targets[j].Seq = string(b)
		res.Count("cases_with_a_target_row_longer_than_64KiB", 1)
	}
	if r.Chance(0.2) {
		// a reference with alignment gaps or ambiguity codes in a few columns (accepted with a
		// warning): whatever such a column means, it must mean the same on the CSV and FASTA paths
		rb := []byte(in.Ref)
		for k := 0; k < r.Range(1, 3); k++ {
			rb[r.Intn(len(rb))] = "--NR"[r.Intn(4)]
		}
		in.Ref = string(rb)
		res.Count("cases_with_gap_or_ambiguity_in_reference", 1)
	}
	o, mode := randomUDOpts(r, in)
	if !o.Table && len(in.Queries) >= 2 && r.Chance(0.2) {
		// two query records with one ID and different sequences (a re-sequenced sample): each is a
		// query of its own with its own row, in file order (the list form is read by position)
		k, j := r.Intn(len(in.Queries)), r.Intn(len(in.Queries))
		if k != j {
			in.Queries[j].ID, in.Queries[j].Desc = in.Queries[k].ID, in.Queries[k].Desc
			res.Count("cases_with_repeated_query_id", 1)
		}
	}
	W := len(in.Ref)
	refTxt := noFinalNL(r, gen.RefFasta("root", in.Ref, gen.PickLineWidth(r, W)))
	qTxt, tTxt := noFinalNL(r, gen.RenderFasta(in.Queries, gen.PickLineWidth(r, W))), noFinalNL(r, gen.RenderFasta(in.Targets, gen.PickLineWidth(r, W)))
	qCSV, e1 := run.UpdownList(refTxt, qTxt)
	tCSV, e2 := run.UpdownList(refTxt, tTxt)
	res.Evals += 2
	files := map[string]string{"ref.fasta": refTxt, "query.fasta": qTxt, "target.fasta": tTxt, "query.csv": qCSV, "target.csv": tCSV}
	argv := udArgv(o)
	if e1 != nil || e2 != nil {
		res.Fail("error-on-valid-input", fmt.Sprint("updown list: ", e1, e2), files, argv)
		return res
	}
	type combo struct{ qt, tt, q, t string }
	combos := []combo{{"fasta", "fasta", qTxt, tTxt}, {"csv", "csv", qCSV, tCSV}, {"csv", "fasta", qCSV, tTxt}, {"fasta", "csv", qTxt, tCSV}}
	var outs []string
	for _, cb := range combos {
		out, err := run.TopRanking(cb.q, cb.t, refTxt, cb.qt, cb.tt, o)
		res.Evals++
		if err != nil {
			res.Fail("error-on-valid-input:"+cb.qt+"/"+cb.tt, err.Error(), files, argv)
			return res
		}
		outs = append(outs, out)
	}
	for i := 1; i < 4; i++ {
		res.Count("combination_pairs_compared", 1)
		if outs[i] != outs[0] {
			f := cloneFiles(files)
			f["observed_fasta_fasta.csv"] = outs[0]
			f["observed_"+combos[i].qt+"_"+combos[i].tt+".csv"] = outs[i]
			qk := "single-query"
			if len(in.Queries) > 1 {
				qk = "multi-query"
			}
			res.Fail(qk+":"+combos[i].qt+"/"+combos[i].tt, fmt.Sprintf("topranking output with --query %s --target %s differs from fasta/fasta: %s", combos[i].qt, combos[i].tt, firstDiff(outs[0], outs[i])), f, argv)
		}
	}
	// one row per query in query-file order (list form)
	if !o.Table {
		lines := strings.Split(strings.TrimSuffix(outs[1], "\n"), "\n")
		okRows := len(lines) == len(in.Queries)+1
		for i := 0; okRows && i < len(in.Queries); i++ {
			okRows = strings.HasPrefix(lines[i+1], in.Queries[i].ID+",")
		}
		if !okRows {
			f := cloneFiles(files)
			f["observed_csv_csv.csv"] = outs[1]
			res.Fail("rows", "csv/csv output does not have one row per query in query-file order", f, argv)
		}
	}
	nc := len(in.Targets) / 8
	res.Sig(fmt.Sprintf("%d|%d|%s|%v", len(in.Queries), nc, mode, o.Table))
	if len(in.Queries) > 1 {
		res.Count("cases_with_several_queries", 1)
	}
	// binary boundary with suffix detection
	if idx%20 == 0 && c.Bin != "" {
		d := filepath.Join(c.Tmp, fmt.Sprintf("c09-%d", idx))
		os.MkdirAll(d, 0755)
		defer os.RemoveAll(d)
		w := func(n, s string) string { p := filepath.Join(d, n); os.WriteFile(p, []byte(s), 0644); return p }
		rp := w("ref.fasta", refTxt)
		qf, tf := w("q.fa", qTxt), w("t.fasta", tTxt)
		qc, tc := w("q.csv", qCSV), w("t.csv", tCSV)
		// the CSV as users make it: `updown list -o file`, where the file may hold an earlier, longer list
		for _, lf := range [][3]string{{"q.fa", "q.csv", qCSV}, {"t.fasta", "t.csv", tCSV}} {
			op := filepath.Join(d, lf[1])
			if fw.Mix(uint64(idx)+uint64(len(lf[0])))%2 == 0 {
				os.WriteFile(op, []byte(lf[2]+staleContent(700)), 0644)
				res.Count("binary_list_runs_over_existing_output_file", 1)
			} else {
				os.Remove(op)
			}
			br := fw.RunBin(c.Bin, []string{"updown", "list", "-r", rp, "-q", filepath.Join(d, lf[0]), "-o", op}, nil, nil, "", 40*time.Second)
			res.Evals++
			got, _ := os.ReadFile(op)
			if br.TimedOut {
				binHang(&res, br, "updown list", files, []string{"updown", "list", "-o", lf[1]})
			} else if br.Exit != 0 || string(got) != lf[2] {
				f := cloneFiles(files)
				f["binary_list_output.csv"] = string(got)
				res.Fail("binary-list-vs-inprocess", fmt.Sprintf("gofasta updown list -o %s (exit %d) does not leave the list the entry point produces in the file: %s", lf[1], br.Exit, firstDiff(lf[2], string(got))), f, []string{"updown", "list", "-o", lf[1]})
			}
			os.WriteFile(op, []byte(lf[2]), 0644)
		}
		base := []string{"updown", "topranking", "-r", rp}
		for k, v := range map[string]int{"--size-total": o.SizeTotal, "--size-same": o.SizeSame, "--size-up": o.SizeUp, "--size-down": o.SizeDown, "--size-side": o.SizeSide, "--dist-all": o.DistAll, "--dist-up": o.DistUp, "--dist-down": o.DistDown, "--dist-side": o.DistSide, "--dist-push": o.DistPush} {
			if v != 0 {
				base = append(base, k, fmt.Sprint(v))
			}
		}
		base = append(base, "--threshold-pair", fmt.Sprint(o.ThreshPair), "--threshold-target", fmt.Sprint(o.ThreshTarget))
		if o.NoFill {
			base = append(base, "--no-fill")
		}
		if o.Table {
			base = append(base, "--table")
		}
		if len(o.Ignore) > 0 {
			base = append(base, "--ignore", w("ignore.txt", strings.Join(o.Ignore, "\n")+"\n"))
		}
		var first []byte
		for i, pr := range [][2]string{{qf, tf}, {qc, tc}, {qc, tf}, {qf, tc}} {
			br := fw.RunBin(c.Bin, append(append([]string{}, base...), "-q", pr[0], "-t", pr[1]), nil, nil, "", 40*time.Second)
			res.Evals++
			res.Count("binary_runs", 1)
			if br.TimedOut {
				binHang(&res, br, "topranking "+filepath.Base(pr[0])+"/"+filepath.Base(pr[1]), files, base)
				break
			}
			if br.Exit != 0 {
				f := cloneFiles(files)
				f["stderr.txt"] = string(br.Stderr)
				res.Fail("binary-error", fmt.Sprintf("binary exit %d on valid input (%s, %s)", br.Exit, filepath.Base(pr[0]), filepath.Base(pr[1])), f, base)
				break
			}
			if i == 0 {
				first = br.Stdout
				if string(first) != outs[0] {
					res.Fail("binary-vs-inprocess", "binary fasta/fasta output differs from the in-process run: "+firstDiff(outs[0], string(first)), files, base)
				}
			} else if string(br.Stdout) != string(first) {
				res.Fail("binary-combination", fmt.Sprintf("binary output for (%s, %s) differs from fasta/fasta", filepath.Base(pr[0]), filepath.Base(pr[1])), files, base)
			}
		}
		// an --ignore file as people assemble it: lines copied from FASTA headers ('>' and a
		// description), lines with trailing blanks, names of records that do not exist. Whatever
		// such a line is taken to mean, it means the same for a FASTA target as for the CSV of it:
		// the four combinations are compared with one another only.
		if fw.Mix(uint64(idx)+4141)%2 == 0 && len(in.Targets) > 0 {
			lines := append([]string{}, o.Ignore...)
			for k := 0; k < 4 && k < len(in.Targets); k++ {
				t := in.Targets[int(fw.Mix(uint64(idx)*7+uint64(k))%uint64(len(in.Targets)))]
				switch fw.Mix(uint64(idx)*11+uint64(k)) % 4 {
				case 0:
					lines = append(lines, t.ID+" England/2020-03-01 collected")
				case 1:
					lines = append(lines, ">"+t.ID)
				case 2:
					lines = append(lines, t.ID+" ")
				default:
					lines = append(lines, "\t"+t.ID)
				}
			}
			lines = append(lines, "no_such_record")
			b2 := append([]string{}, base...)
			replaced := false
			for i := range b2 {
				if b2[i] == "--ignore" && i+1 < len(b2) {
					b2[i+1] = w("ignore_decorated.txt", strings.Join(lines, "\n")+"\n")
					replaced = true
				}
			}
			if !replaced {
				b2 = append(b2, "--ignore", w("ignore_decorated.txt", strings.Join(lines, "\n")+"\n"))
			}
			var first2 []byte
			for i, pr := range [][2]string{{qf, tf}, {qc, tc}, {qc, tf}, {qf, tc}} {
				br := fw.RunBin(c.Bin, append(append([]string{}, b2...), "-q", pr[0], "-t", pr[1]), nil, nil, "", 40*time.Second)
				res.Evals++
				res.Count("binary_runs_with_decorated_ignore_file", 1)
				if br.TimedOut {
					binHang(&res, br, "topranking (decorated ignore file) "+filepath.Base(pr[0])+"/"+filepath.Base(pr[1]), files, b2)
					break
				}
				if i == 0 {
					first2 = append(br.Stdout, byte('0'+br.Exit%10))
				} else if string(append(br.Stdout, byte('0'+br.Exit%10))) != string(first2) {
					f := cloneFiles(files)
					f["ignore_decorated.txt"] = strings.Join(lines, "\n") + "\n"
					f["binary_fasta_fasta.txt"] = string(first2)
					f["binary_this_combination.txt"] = string(br.Stdout)
					res.Fail("binary-combination-ignore-file", fmt.Sprintf("with an --ignore file holding header-style lines the binary's output (or exit status) for (%s, %s) differs from fasta/fasta: %s", filepath.Base(pr[0]), filepath.Base(pr[1]), firstDiff(string(first2), string(br.Stdout))), f, b2)
					break
				}
			}
		}
	}
	if idx < 2 {
		res.Sample = map[string]interface{}{"argv": argv, "query_csv": clipStr(qCSV, 400), "target_csv": clipStr(tCSV, 600), "observed": clipStr(outs[0], 400)}
	}
	return res
}
