package props

import (
	"fmt"
	"sort"
	"strings"

	"verifharness/internal/fw"
	"verifharness/internal/gen"
	"verifharness/internal/model"
)

func init() {
	fw.Register(&fw.Property{
		ID:         "C14",
		Level:      "exploration",
		Jitter:     true,
		RaceSample: true,
		Rule: "abstract annotations of named coding features (forward/reverse, 1-3 segments with split codons, codon_start 1-3, overlapping, slippage joins) rendered both as a GenBank flat file (a..b, join, complement, complement(join), join(complement,...)) and as GFF3 CDS rows sharing an ID with spec-correct phase and ##FASTA; the same FASTA or SAM alignment is run under both and the per-sequence mutation multisets compared; " +
			"distinct non-trivial = distinct (form, location forms present, strands, split-codon continuation present, codon_start set) of cases whose outputs contain at least one aa record",
		Assumptions: []string{"mutation lists are compared as sets (duplicate identical records are not judged); isoforms (same gene name and outer bounds, different junction) are generated",
			"only layouts expressible in both formats are generated (every CDS named); GFF rows ascending, phase of the first row in reading order = codon_start-1, continuation rows = bases completing the split codon",
			"the order of records that share one genomic position is free"},
		MinNontriv: 40,
		Cases: func(tier string) int {
			if tier == "thorough" {
				return 200000
			}
			return 2000
		},
		Run: runC14,
	})
}

func mutStrings(ms []model.Mut) []string {
	var o []string
	for _, m := range ms {
		o = append(o, m.Raw)
	}
	return o
}

func runC14(c *fw.Ctx, idx int) fw.Result {
	var res fw.Result
	r := fw.NewRng(c.Seed, "C14", idx)
	form := "fasta"
	if r.Chance(0.3) {
		form = "sam"
	}
	opts := gen.AnnoOpts{MaxFeats: 5, AllowUnnamed: false, AllowSlip: true, SplitCodons: true, Isoforms: true, Rotate: true, NoStop: true, DupNames: true, CRLF: true, AmbigRef: true, NoFeatures: true}
	vp := gen.DefaultVarProfile()
	if r.Chance(0.4) {
		vp.PDel, vp.MaxInsSites = 0.05, 5
	}
	ac := makeAnnoCase(r, c.Thorough(), "gb", form, vp, 6, opts)
	gbTxt := ac.annoTxt
	gffTxt := gen.RenderGFF(r, ac.an, true)
	if r.Chance(0.12) {
		// line ends of either file are not part of the annotation
		gffTxt = strings.ReplaceAll(gffTxt, "\n", "\r\n")
		res.Count("cases_with_crlf_gff", 1)
	}
	appendSNP := r.Chance(0.5)
	threads := pickThreads(r)
	outGB, errGB := ac.runVariants(-1, -1, false, 0, appendSNP, threads)
	if idx%20 == 8 && errGB == nil {
		ac.binVariants(c, &res, idx, -1, -1, false, 0, appendSNP, threads, outGB)
	}
	ac.format, ac.annoTxt = "gff", gffTxt
	outGFF, errGFF := ac.runVariants(-1, -1, false, 0, appendSNP, threads)
	if idx%20 == 8 && errGFF == nil {
		ac.binVariants(c, &res, idx+1, -1, -1, false, 0, appendSNP, threads, outGFF)
	}
	res.Evals += 2
	files := ac.files()
	files["annotation.gb"] = gbTxt
	files["observed_gb.csv"] = outGB
	files["observed_gff.csv"] = outGFF
	argv := ac.argv(fmt.Sprintf("--append-snps=%v", appendSNP))
	split := false
	forms := map[string]bool{}
	strands := ""
	cs := map[int]bool{}
	for _, f := range ac.an.Feats {
		if gen.HasSplitContinuation(f) {
			split = true
		}
		switch {
		case f.Strand > 0 && len(f.Segs) == 1:
			forms["range"] = true
		case f.Strand > 0:
			forms["join"] = true
		case len(f.Segs) == 1:
			forms["comp"] = true
		case f.LocForm == 0:
			forms["compjoin"] = true
		default:
			forms["joincomp"] = true
		}
		if f.Strand > 0 {
			strands += "+"
		} else {
			strands += "-"
		}
		cs[f.CodonStart] = true
	}
	class := form
	if split {
		class += ":split-codon"
	}
	if errGB != nil || errGFF != nil {
		sub := "error-on-valid-input"
		if errGB == nil {
			sub = "gff-error-gb-ok"
		}
		res.Fail(class+":"+sub, fmt.Sprintf("GenBank run: %v; GFF3 run: %v", errGB, errGFF), files, argv)
		return res
	}
	nGB, mGB, ok1 := model.ParseVariantsCSV(outGB)
	nGFF, mGFF, ok2 := model.ParseVariantsCSV(outGFF)
	if !ok1 || !ok2 || strings.Join(nGB, "\n") != strings.Join(nGFF, "\n") || len(nGB) != len(ac.names) {
		res.Fail(class+":rows", "the two runs do not list the same sequences", files, argv)
		return res
	}
	hasAA := false
	for i := range nGB {
		// compared as sets: whether two identical records (e.g. from two isoforms of one gene)
		// are merged depends on their adjacency, which is not part of the property
		a, b := uniqueSorted(mutStrings(mGB[i])), uniqueSorted(mutStrings(mGFF[i]))
		for _, m := range mGB[i] {
			if m.Kind == "aa" {
				hasAA = true
			}
		}
		res.Count("sequences_compared", 1)
		res.Count("records_compared", len(a))
		if strings.Join(a, "|") != strings.Join(b, "|") {
			res.Fail(class+":format-difference", fmt.Sprintf("sequence %s: GenBank gives %v, GFF3 gives %v", nGB[i], mutStrings(mGB[i]), mutStrings(mGFF[i])), files, argv)
			continue
		}
		// both lists ordered by position (non-aa records)
		for _, ms := range [][]model.Mut{mGB[i], mGFF[i]} {
			last := -1
			for _, m := range ms {
				if m.Kind == "aa" {
					continue
				}
				if m.Pos < last {
					res.Fail(class+":position-order", fmt.Sprintf("sequence %s: %s listed after position %d", nGB[i], m.Raw, last), files, argv)
					break
				}
				last = m.Pos
			}
		}
	}
	if hasAA {
		var fk []string
		for k := range forms {
			fk = append(fk, k)
		}
		sort.Strings(fk)
		var ck []string
		for k := range cs {
			ck = append(ck, fmt.Sprint(k))
		}
		sort.Strings(ck)
		res.Sig(fmt.Sprintf("%s|%s|%s|%v|%s", form, strings.Join(fk, ","), strands, split, strings.Join(ck, "")))
		if split {
			res.Count("cases_with_split_codon_continuation_row", 1)
		}
	}
	for k := range forms {
		res.Count("location_form_"+k, 1)
	}
	if idx < 2 {
		res.Sample = map[string]interface{}{"genbank": clipStr(gbTxt, 1200), "gff": clipStr(gffTxt, 900), "observed_gb": clipStr(outGB, 400), "observed_gff": clipStr(outGFF, 400)}
	}
	return res
}

func uniqueSorted(s []string) []string {
	o := model.SortedStrings(s)
	var u []string
	for i, x := range o {
		if i == 0 || x != o[i-1] {
			u = append(u, x)
		}
	}
	return u
}
