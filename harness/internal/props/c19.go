package props

import (
	"errors"
	"fmt"
	"io"
	"os"
	"os/exec"
	"path/filepath"
	"runtime"
	"strings"
	"sync"
	"time"

	"github.com/virus-evolution/gofasta/pkg/closest"
	"github.com/virus-evolution/gofasta/pkg/sam"
	"github.com/virus-evolution/gofasta/pkg/snps"
	"github.com/virus-evolution/gofasta/pkg/updown"
	"github.com/virus-evolution/gofasta/pkg/variants"

	"bytes"

	"verifharness/internal/fw"
	"verifharness/internal/gen"
)

var errInjected = errors.New("injected write failure")

// failWriter fails the k-th Write call (one-shot) or every call from the k-th on (sticky).
type failWriter struct {
	mu     sync.Mutex
	n      int
	failAt int
	sticky bool
	delay  time.Duration // the failing call takes this long to fail (a stalled device, a blocked pipe)
	sizes  []int
	buf    bytes.Buffer
}

func (w *failWriter) Write(p []byte) (int, error) {
	w.mu.Lock()
	defer w.mu.Unlock()
	w.n++
	if w.failAt > 0 && (w.n == w.failAt || (w.sticky && w.n > w.failAt)) {
		if w.delay > 0 && w.n == w.failAt {
			w.mu.Unlock()
			time.Sleep(w.delay)
			w.mu.Lock()
		}
		return 0, errInjected
	}
	w.sizes = append(w.sizes, len(p))
	w.buf.Write(p)
	return len(p), nil
}

type c19Entry struct {
	name string
	call func(w io.Writer) error
	// binary form: argv with {out} placeholder, files to write, optional stdout redirection
	argv  []string
	files map[string]string
	// fileOnly: the command has no standard-output form; noCompare: the bytes of a run whose limit
	// does not bind are not compared with the fault-free file
	fileOnly, noCompare bool
}

const c19Entries = 19

func init() {
	fw.Register(&fw.Property{
		ID:    "C19",
		Level: "fault_enumeration",
		Rule: "for every entry point that takes an output writer (sam toMultiAlign plain and wrapped, sam variants and variants per-sequence and --aggregate, snps per-sequence and --aggregate, closest plain / -n list / -n table, updown list, updown topranking list and table, plus toPairAlign and the two tables of sam indels (to separate files and to one file) through the binary) and three representative inputs each (incl. one whose result rows are empty and, for the FASTA-writing commands, one with records of 4-9 kb): the fault-free run is observed once to learn the number W of Write calls and their sizes, then a write failure is injected at the k-th Write for every k in 1..W, one-shot and sticky, and the call must return a non-nil error; at binary level the same commands run under RLIMIT_FSIZE = L for every write boundary L (and L-1, L+1, 0 and random offsets) of the fault-free output and must exit non-zero iff L is smaller than the fault-free size; " +
			"distinct non-trivial = distinct (entry point, input, k, mode) faults injected in-process plus distinct (command, input, L) limits at binary level",
		Assumptions: []string{"RLIMIT_FSIZE makes the kernel accept exactly L bytes and fail the next write(2) with EFBIG: a real device-full at an exact byte with no instrumentation in the target",
			"a call that neither returns nor makes progress after an injected failure is a violation only if the goroutine dump shows a closed channel deadlock"},
		Exhaustive: true,
		MinNontriv: 200,
		Workers:    12,
		Cases: func(tier string) int {
			inputs := 3
			if tier == "thorough" {
				inputs = 40
			}
			return c19Entries * inputs * 2 // x2: in-process and binary
		},
		Run:         runC19,
		CaseTimeout: 600 * time.Second,
	})
}

func c19MakeEntry(r *fw.Rng, e int, variant int) c19Entry {
	// variant 0: ordinary; 1: results with empty rows (queries equal to the reference); 2, 6, 10, ...: records of 4-9 kb for the FASTA-writing commands; others: ordinary, other sizes
	trivial := variant == 1
	opts := gen.AnnoOpts{MaxFeats: 3, SplitCodons: true}
	vp := gen.VarProfile{PSub: 0.08, PAmbig: 0.2, PDel: 0.02, MaxInsSites: 2, MaxDelLen: 5}
	if trivial {
		vp = gen.VarProfile{}
	}
	mkAnno := func(form string) annoCase {
		ac := makeAnnoCase(r, false, []string{"gb", "gff"}[r.Intn(2)], form, vp, 6, opts)
		if form == "sam" && trivial {
			// a SAM file whose queries equal the reference
			var sb strings.Builder
			sb.WriteString(fmt.Sprintf("@SQ\tSN:%s\tLN:%d\n", ac.an.RefName, len(ac.an.Ref)))
			for i := 0; i < 3; i++ {
				sb.WriteString(fmt.Sprintf("same%d\t0\t%s\t1\t60\t%dM\t*\t0\t0\t%s\t*\n", i, ac.an.RefName, len(ac.an.Ref), ac.an.Ref))
			}
			ac.sf.Text = sb.String()
		}
		return ac
	}
	switch e {
	case 0, 1:
		L := r.Range(20, 80)
		pr := gen.DefaultSamProfile()
		pr.MaxQueries = 6
		if variant%4 == 2 {
			// records longer than a page or a pipe buffer: header and sequence cannot share one write
			L = r.Range(4200, 9000)
			pr.MaxQueries = 3
		}
		ref := gen.Genome(r, L)
		sf := gen.MakeSam(r, ref, pr)
		wrap := -1
		name := "sam toMultiAlign"
		argv := []string{"sam", "toMultiAlign", "-s", "{in.sam}", "-o", "{out}", "-t", "2"}
		if e == 1 {
			wrap = r.Range(5, 20)
			name += " --wrap"
			argv = append(argv, "--wrap", fmt.Sprint(wrap))
		}
		return c19Entry{name: name, argv: argv, files: map[string]string{"in.sam": sf.Text},
			call: func(w io.Writer) error {
				return sam.ToMultiAlign(strings.NewReader(sf.Text), w, wrap, -1, -1, false, 2)
			}}
	case 2, 3:
		ac := mkAnno("sam")
		agg := e == 3
		refTxt := ac.refTxt
		argv := []string{"sam", "variants", "-s", "{in.sam}", "-r", "{ref.fasta}", "-a", "{anno." + ac.format + "}", "-o", "{out}", "-t", "2"}
		if agg {
			argv = append(argv, "--aggregate")
		}
		return c19Entry{name: "sam variants" + map[bool]string{true: " --aggregate"}[agg], argv: argv,
			files: map[string]string{"in.sam": ac.sf.Text, "ref.fasta": refTxt, "anno." + ac.format: ac.annoTxt},
			call: func(w io.Writer) error {
				return sam.Variants(strings.NewReader(ac.sf.Text), strings.NewReader(refTxt), true, strings.NewReader(ac.annoTxt), ac.format, w, -1, -1, agg, 0, false, 2)
			}}
	case 4, 5:
		ac := mkAnno("fasta")
		if ac.refID == "" {
			// make sure there is a reference row for the binary form
			ac.refID = ac.an.RefName
			recs := append([]gen.FastaRec{{ID: ac.an.RefName, Desc: ac.an.RefName, Seq: ac.msa.RefRow}}, ac.msa.Rows...)
			ac.msaTxt = gen.RenderFasta(recs, 0)
		}
		agg := e == 5
		nameSuffix := ""
		if variant%3 == 2 {
			// an alignment that holds nothing but the reference record: the header is the whole output
			ac.refID = ac.an.RefName
			ac.msaTxt = gen.RenderFasta([]gen.FastaRec{{ID: ac.an.RefName, Desc: ac.an.RefName, Seq: ac.msa.RefRow}}, 0)
			nameSuffix = " (reference-only alignment)"
		}
		argv := []string{"variants", "--msa", "{msa.fasta}", "-r", ac.refID, "-a", "{anno." + ac.format + "}", "-o", "{out}", "-t", "2"}
		if agg {
			argv = append(argv, "--aggregate")
		}
		return c19Entry{name: "variants" + map[bool]string{true: " --aggregate"}[agg] + nameSuffix, argv: argv,
			files: map[string]string{"msa.fasta": ac.msaTxt, "anno." + ac.format: ac.annoTxt},
			call: func(w io.Writer) error {
				return variants.Variants(bytes.NewReader([]byte(ac.msaTxt)), false, ac.refID, strings.NewReader(ac.annoTxt), ac.format, w, -1, -1, agg, 0, false, 2)
			}}
	case 6, 7:
		W := r.Range(10, 60)
		ref := gen.Genome(r, W)
		rows := gen.MakeVariantMSA(r, ref, r.Range(1, 8), gen.VarProfile{PSub: vp.PSub, PAmbig: 0.2}).Rows
		refTxt, aln := gen.RefFasta("reference", ref, 0), gen.RenderFasta(rows, 0)
		agg := e == 7
		argv := []string{"snps", "-r", "{ref.fasta}", "-q", "{aln.fasta}", "-o", "{out}"}
		if agg {
			argv = append(argv, "--aggregate")
		}
		return c19Entry{name: "snps" + map[bool]string{true: " --aggregate"}[agg], argv: argv, files: map[string]string{"ref.fasta": refTxt, "aln.fasta": aln},
			call: func(w io.Writer) error {
				return snps.SNPs(strings.NewReader(refTxt), strings.NewReader(aln), false, agg, 0, w)
			}}
	case 8, 9, 10:
		W := r.Range(10, 60)
		ref := gen.Genome(r, W)
		p := gen.VarProfile{PSub: vp.PSub, PAmbig: 0.1}
		qs := gen.MakeVariantMSA(r, ref, r.Range(1, 5), p).Rows
		ts := gen.MakeVariantMSA(r, ref, r.Range(1, 8), p).Rows
		measure8 := "snp"
		if variant%3 == 2 {
			// a query without any resolved site (its distance to every target is undefined), as the
			// last row or in the middle, under a measure that has undefined values
			measure8 = []string{"raw", "tn93"}[variant/3%2]
			allN := gen.FastaRec{ID: "masked", Desc: "masked", Seq: strings.Repeat("N", W)}
			if variant%2 == 0 || len(qs) < 2 {
				qs = append(qs, allN)
			} else {
				qs = append(qs[:1], append([]gen.FastaRec{allN}, qs[1:]...)...)
			}
		}
		qTxt, tTxt := gen.RenderFasta(qs, 0), gen.RenderFasta(ts, 0)
		switch e {
		case 8:
			return c19Entry{name: "closest -m " + measure8, argv: []string{"closest", "--query", "{q.fasta}", "--target", "{t.fasta}", "-o", "{out}", "-m", measure8}, files: map[string]string{"q.fasta": qTxt, "t.fasta": tTxt},
				call: func(w io.Writer) error {
					defer runtime.GOMAXPROCS(runtime.GOMAXPROCS(0))
					return closest.Closest(strings.NewReader(qTxt), strings.NewReader(tTxt), measure8, w, 0)
				}}
		case 9:
			return c19Entry{name: "closest -n", argv: []string{"closest", "--query", "{q.fasta}", "--target", "{t.fasta}", "-o", "{out}", "-n", "3"}, files: map[string]string{"q.fasta": qTxt, "t.fasta": tTxt},
				call: func(w io.Writer) error {
					defer runtime.GOMAXPROCS(runtime.GOMAXPROCS(0))
					return closest.ClosestN(3, -1.0, strings.NewReader(qTxt), strings.NewReader(tTxt), "raw", w, false, 0)
				}}
		default:
			return c19Entry{name: "closest -n --table", argv: []string{"closest", "--query", "{q.fasta}", "--target", "{t.fasta}", "-o", "{out}", "-n", "3", "--table", "-m", "snp"}, files: map[string]string{"q.fasta": qTxt, "t.fasta": tTxt},
				call: func(w io.Writer) error {
					defer runtime.GOMAXPROCS(runtime.GOMAXPROCS(0))
					return closest.ClosestN(3, -1.0, strings.NewReader(qTxt), strings.NewReader(tTxt), "snp", w, true, 0)
				}}
		}
	case 11:
		W := r.Range(10, 60)
		ref := gen.Genome(r, W)
		var recs []gen.FastaRec
		for i := 0; i < r.Range(1, 8); i++ {
			s := ref
			if !trivial {
				s = ambigRunSeq(r, ref)
			}
			recs = append(recs, gen.FastaRec{ID: fmt.Sprintf("s%d", i), Desc: fmt.Sprintf("s%d", i), Seq: s})
		}
		refTxt, aln := gen.RefFasta("root", ref, 0), gen.RenderFasta(recs, 0)
		return c19Entry{name: "updown list", argv: []string{"updown", "list", "-r", "{ref.fasta}", "-q", "{aln.fasta}", "-o", "{out}"}, files: map[string]string{"ref.fasta": refTxt, "aln.fasta": aln},
			call: func(w io.Writer) error { return updown.List(strings.NewReader(refTxt), strings.NewReader(aln), w) }}
	case 12, 13, 14:
		in := gen.MakeUpdown(r, gen.UpdownProfile{MaxQueries: 4, MaxTargets: 10, PAmbTract: 0.2, MultiHit: true})
		if variant%3 == 2 {
			// names with characters that are special in a CSV (legal in a FASTA header): whatever the
			// writer does with them, a failed write of such a row is a failed write
			nm := func(s string, k int) string { return []string{s + ",1", "\"" + s + "\"", s + ";a|b", s + ",x\"y"}[k%4] }
			for i := range in.Queries {
				if i%2 == 0 {
					in.Queries[i].ID = nm(in.Queries[i].ID, i/2)
					in.Queries[i].Desc = in.Queries[i].ID
				}
			}
			for i := range in.Targets {
				if i%2 == 1 || i == len(in.Targets)-1 {
					in.Targets[i].ID = nm(in.Targets[i].ID, i)
					in.Targets[i].Desc = in.Targets[i].ID
				}
			}
		}
		refTxt, qTxt, tTxt := gen.RefFasta("root", in.Ref, 0), gen.RenderFasta(in.Queries, 0), gen.RenderFasta(in.Targets, 0)
		table := e >= 13
		push := 0
		size := 6
		argv := []string{"updown", "topranking", "-r", "{ref.fasta}", "-q", "{q.fasta}", "-t", "{t.fasta}", "-o", "{out}"}
		name := "updown topranking"
		if table {
			argv = append(argv, "--table")
			name += " --table"
		}
		if e == 14 {
			push, size = 2, 0
			argv = append(argv, "--dist-push", "2")
			name += " --dist-push"
		} else {
			argv = append(argv, "--size-total", "6")
		}
		return c19Entry{name: name, argv: argv, files: map[string]string{"ref.fasta": refTxt, "q.fasta": qTxt, "t.fasta": tTxt},
			call: func(w io.Writer) error {
				return updown.TopRanking(strings.NewReader(qTxt), strings.NewReader(tTxt), strings.NewReader(refTxt), w, table, "fasta", "fasta", []string{}, size, 0, 0, 0, 0, 0, 0, 0, 0, 0.1, 10000, false, push)
			}}
	case 17, 18:
		// the deprecated sam indels has two output files: a failure on either must be reported.
		// Which table is written first is up to the scheduler, so each fault is repeated.
		L := r.Range(30, 80)
		ref := gen.Genome(r, L)
		pr := gen.DefaultSamProfile()
		pr.MaxQueries = 8
		pr.PIns, pr.PDel = 0.08, 0.08
		pr.AllowConflict = false
		sf := gen.MakeSam(r, ref, pr)
		insSide := e == 17
		name := "sam indels (deletions output fails)"
		if insSide {
			name = "sam indels (insertions output fails)"
		}
		// binary form: the insertions table to a size-limited file with the deletions to /dev/null,
		// and both tables sent to one and the same file (the bytes that land there are not judged,
		// only that a refused write is reported)
		argv := []string{"sam", "indels", "-s", "{in.sam}", "--threshold", "1", "--insertions-out", "{out}", "--deletions-out", "/dev/null"}
		if !insSide {
			argv = []string{"sam", "indels", "-s", "{in.sam}", "--threshold", "1", "--insertions-out", "{out}", "--deletions-out", "{out}"}
		}
		return c19Entry{name: name, argv: argv, fileOnly: true, noCompare: true, files: map[string]string{"in.sam": sf.Text},
			call: func(w io.Writer) error {
				var other bytes.Buffer
				if insSide {
					return sam.Indels(strings.NewReader(sf.Text), w, &other, 1)
				}
				return sam.Indels(strings.NewReader(sf.Text), &other, w, 1)
			}}
	default: // 15, 16: toPairAlign (binary only): stdout redirected to a file, and directory mode
		L := r.Range(20, 80)
		if variant%4 == 2 {
			L = r.Range(4200, 9000)
		}
		ref := gen.Genome(r, L)
		pr := gen.DefaultSamProfile()
		pr.MaxQueries = 5
		pr.AllowConflict = false
		sf := gen.MakeSam(r, ref, pr)
		refTxt := gen.RefFasta(sf.RefName, ref, 0)
		if e == 15 {
			return c19Entry{name: "sam toPairAlign -o stdout", argv: []string{"sam", "toPairAlign", "-s", "{in.sam}", "-r", "{ref.fasta}", "-o", "stdout", ">{out}"}, files: map[string]string{"in.sam": sf.Text, "ref.fasta": refTxt}}
		}
		return c19Entry{name: "sam toPairAlign -o dir", argv: []string{"sam", "toPairAlign", "-s", "{in.sam}", "-r", "{ref.fasta}", "-o", "{outdir}"}, files: map[string]string{"in.sam": sf.Text, "ref.fasta": refTxt}}
	}
}

// callWithWatchdog runs f; a call that does not return within the (generous)
// watchdog is classified from a goroutine dump.
func callWithWatchdog(f func() error) (err error, hung bool, verdict, dump string) {
	done := make(chan error, 1)
	go func() { done <- f() }()
	select {
	case err = <-done:
		return err, false, "", ""
	case <-time.After(20 * time.Second):
		buf := make([]byte, 4<<20)
		n := runtime.Stack(buf, true)
		dump = string(buf[:n])
		return nil, true, fw.AnalyseDump(dump), dump
	}
}

func runC19(c *fw.Ctx, idx int) fw.Result {
	var res fw.Result
	binary := idx%2 == 1
	k := idx / 2
	e := k % c19Entries
	variant := k / c19Entries
	r := fw.NewRng(c.Seed, "C19", k)
	en := c19MakeEntry(r, e, variant)
	if !binary {
		if en.call == nil {
			res.Evals++
			return res
		}
		base := &failWriter{}
		err, hung, _, _ := callWithWatchdog(func() error { return en.call(base) })
		res.Evals++
		files := cloneFiles(en.files)
		if hung || err != nil {
			res.Inconclusive = append(res.Inconclusive, fmt.Sprintf("%s: fault-free run failed: %v", en.name, err))
			return res
		}
		W := base.n
		res.Count("write_calls_fault_free@"+en.name, W)
		files["fault_free_output.txt"] = base.buf.String()
		repeats := 1
		if strings.HasPrefix(en.name, "sam indels") {
			repeats = 6
		}
		for kk := 1; kk <= W; kk++ {
			nrep := 2 * repeats
			if kk == 1 || kk == W || kk == (W+1)/2 {
				nrep += 2 // header, middle and last write also fail slowly
			}
			for rep := 0; rep < nrep; rep++ {
				sticky := rep%2 == 1
				fwr := &failWriter{failAt: kk, sticky: sticky}
				if rep >= 2*repeats {
					fwr.delay = 30 * time.Millisecond
					res.Count("slow_faults_injected", 1)
				}
				err, hung, verdict, dump := callWithWatchdog(func() error { return en.call(fwr) })
				res.Evals++
				res.Count("faults_injected", 1)
				mode := map[bool]string{false: "one-shot", true: "sticky"}[sticky]
				if fwr.delay > 0 {
					mode += ", failing after 30 ms"
				}
				res.Sig(fmt.Sprintf("%s|%d|%d|%s|%d", en.name, variant, kk, mode, rep/2))
				argv := append([]string{en.name}, fmt.Sprintf("fail Write call %d of %d (%s)", kk, W, mode))
				where := "row"
				if kk == 1 {
					where = "header"
				} else if kk == W {
					where = "last-write"
				}
				switch {
				case hung && verdict == "deadlock":
					f := cloneFiles(files)
					f["goroutines.txt"] = clipStr(dump, 40000)
					res.Fail(en.name+":"+where+":deadlock", fmt.Sprintf("%s: after a failed Write (call %d of %d, %s) the call never returns: closed channel deadlock", en.name, kk, W, mode), f, argv)
					return res // leaked goroutines: stop this case
				case hung:
					res.Inconclusive = append(res.Inconclusive, fmt.Sprintf("%s k=%d: watchdog fired, dump verdict %s", en.name, kk, verdict))
					return res
				case err == nil:
					res.Fail(en.name+":"+where+":failure-ignored", fmt.Sprintf("%s: Write call %d of %d failed (%s) but the call returned nil", en.name, kk, W, mode), files, argv)
				default:
					res.Count("faults_reported", 1)
				}
			}
		}
		if idx < 2 {
			res.Sample = map[string]interface{}{"entry_point": en.name, "write_calls": W, "write_sizes": base.sizes, "fault_free_output": clipStr(base.buf.String(), 300)}
		}
		return res
	}
	// ---- binary level: RLIMIT_FSIZE
	if c.Bin == "" || len(en.argv) == 0 {
		res.Evals++
		return res
	}
	d := filepath.Join(c.Tmp, fmt.Sprintf("c19-%d", idx))
	os.MkdirAll(d, 0755)
	defer os.RemoveAll(d)
	for n, s := range en.files {
		os.WriteFile(filepath.Join(d, n), []byte(s), 0644)
	}
	outPath := filepath.Join(d, "out.txt")
	outDir := filepath.Join(d, "outdir")
	redirect := false
	var args []string
	for _, a := range en.argv {
		switch {
		case a == "{out}":
			args = append(args, outPath)
		case a == ">{out}":
			redirect = true
		case a == "{outdir}":
			args = append(args, outDir)
		case strings.HasPrefix(a, "{"):
			args = append(args, filepath.Join(d, strings.Trim(a, "{}")))
		default:
			args = append(args, a)
		}
	}
	dirMode := strings.HasSuffix(en.name, "-o dir")
	runLimited := func(limit int) (int, []byte, bool) {
		os.Remove(outPath)
		os.RemoveAll(outDir)
		var cmdline []string
		quoted := make([]string, len(args))
		for i, a := range args {
			quoted[i] = "'" + strings.ReplaceAll(a, "'", "'\\''") + "'"
		}
		sh := "exec '" + c.Bin + "' " + strings.Join(quoted, " ")
		if redirect {
			sh += " > '" + outPath + "'"
		}
		if limit >= 0 {
			cmdline = []string{"--fsize=" + fmt.Sprint(limit), "sh", "-c", sh}
			br := fw.RunBin("prlimit", cmdline, nil, nil, d, 60*time.Second)
			return br.Exit, br.Stderr, br.TimedOut
		}
		br := fw.RunBin("sh", []string{"-c", sh}, nil, nil, d, 60*time.Second)
		return br.Exit, br.Stderr, br.TimedOut
	}
	exit, stderr, to := runLimited(-1)
	res.Evals++
	if to || exit != 0 {
		res.Inconclusive = append(res.Inconclusive, fmt.Sprintf("%s: fault-free binary run failed (exit %d): %s", en.name, exit, clipStr(string(stderr), 200)))
		return res
	}
	// learn the output size(s) and write boundaries
	var S int
	var bounds []int
	var full []byte
	if dirMode {
		ents, _ := os.ReadDir(outDir)
		for _, en := range ents {
			b, _ := os.ReadFile(filepath.Join(outDir, en.Name()))
			if len(b) > S {
				S = len(b) // the limit applies per file: the largest file decides
			}
		}
		for x := 0; x <= S; x += 1 + S/12 {
			bounds = append(bounds, x)
		}
	} else {
		full, _ = os.ReadFile(outPath)
		S = len(full)
		if en.call != nil {
			base := &failWriter{}
			if err := en.call(base); err == nil {
				cum := 0
				for _, sz := range base.sizes {
					cum += sz
					bounds = append(bounds, cum-1, cum, cum+1)
				}
			}
		}
		for x := 0; x < S; x += 1 + S/10 {
			bounds = append(bounds, x)
		}
	}
	bounds = append(bounds, 0, S-1, S, S+1)
	for i := 0; i < 10 && S > 0; i++ {
		bounds = append(bounds, r.Intn(S))
	}
	seen := map[int]bool{}
	for _, L := range bounds {
		if L < 0 || seen[L] {
			continue
		}
		seen[L] = true
		exit, stderr, to := runLimited(L)
		res.Evals++
		res.Count("limits_applied", 1)
		res.Sig(fmt.Sprintf("bin|%s|%d|%d", en.name, variant, L))
		argv := append([]string{fmt.Sprintf("RLIMIT_FSIZE=%d", L)}, args...)
		files := cloneFiles(en.files)
		files["stderr.txt"] = clipStr(string(stderr), 4000)
		if to {
			res.Inconclusive = append(res.Inconclusive, "binary watchdog fired under RLIMIT_FSIZE")
			continue
		}
		if L < S {
			if exit == 0 {
				res.Fail(en.name+":binary:failure-ignored", fmt.Sprintf("%s: the output device accepted only %d of %d bytes (RLIMIT_FSIZE) but the command exited 0", en.name, L, S), files, argv)
			} else {
				res.Count("limits_reported", 1)
			}
		} else {
			got, _ := os.ReadFile(outPath)
			if exit != 0 || (!dirMode && !en.noCompare && string(got) != string(full)) {
				res.Fail(en.name+":binary:spurious-failure", fmt.Sprintf("%s: RLIMIT_FSIZE=%d is not smaller than the output size %d but the command exited %d or wrote different bytes", en.name, L, S, exit), files, argv)
			} else {
				res.Count("limits_not_binding_ok", 1)
			}
		}
	}
	// ---- closed pipe: stdout is a pipe whose reader is gone before the first byte
	if !dirMode && !en.fileOnly && S > 0 {
		// the same command writing to standard output ("-o stdout" is every command's default)
		pargs := append([]string{}, args...)
		for i := range pargs {
			if pargs[i] == outPath && i > 0 && pargs[i-1] == "-o" {
				pargs[i] = "stdout"
			}
		}
		if !redirect {
			// standard output redirected to a size-limited file: the stdout path of the writer
			for _, L := range []int{0, S - 1} {
				quoted := make([]string, len(pargs))
				for i, a := range pargs {
					quoted[i] = "'" + strings.ReplaceAll(a, "'", "'\\''") + "'"
				}
				sh := "exec '" + c.Bin + "' " + strings.Join(quoted, " ") + " > '" + outPath + "'"
				os.Remove(outPath)
				br := fw.RunBin("prlimit", []string{"--fsize=" + fmt.Sprint(L), "sh", "-c", sh}, nil, nil, d, 60*time.Second)
				res.Evals++
				if br.TimedOut {
					res.Inconclusive = append(res.Inconclusive, "binary watchdog fired under RLIMIT_FSIZE (stdout)")
					continue
				}
				res.Count("limits_applied_stdout", 1)
				res.Sig(fmt.Sprintf("bin|%s|%d|stdout|%d", en.name, variant, L))
				if br.Exit == 0 {
					files := cloneFiles(en.files)
					files["stderr.txt"] = clipStr(string(br.Stderr), 4000)
					res.Fail(en.name+":binary:stdout:failure-ignored", fmt.Sprintf("%s: standard output (a file) accepted only %d of %d bytes (RLIMIT_FSIZE) but the command exited 0", en.name, L, S), files, append([]string{fmt.Sprintf("RLIMIT_FSIZE=%d stdout>file", L)}, pargs...))
				}
			}
		}
		args := pargs
		pr, pw, err := os.Pipe()
		if err == nil {
			pr.Close()
			cmd := exec.Command(c.Bin, args...)
			cmd.Dir = d
			cmd.Stdout = pw
			var eb bytes.Buffer
			cmd.Stderr = &eb
			done := make(chan error, 1)
			if err := cmd.Start(); err == nil {
				go func() { done <- cmd.Wait() }()
				select {
				case werr := <-done:
					res.Evals++
					res.Count("closed_pipe_runs", 1)
					res.Sig(fmt.Sprintf("bin|%s|%d|closed-pipe", en.name, variant))
					if werr == nil {
						files := cloneFiles(en.files)
						files["stderr.txt"] = clipStr(eb.String(), 4000)
						res.Fail(en.name+":binary:closed-pipe-ignored", fmt.Sprintf("%s: standard output was a pipe with no reader (every write fails with EPIPE), %d bytes were due, but the command exited 0", en.name, S), files, append([]string{"stdout=closed pipe"}, args...))
					} else {
						res.Count("closed_pipe_reported", 1)
					}
				case <-time.After(60 * time.Second):
					cmd.Process.Kill()
					<-done
					res.Inconclusive = append(res.Inconclusive, "binary watchdog fired with a closed stdout pipe")
				}
			}
			pw.Close()
		}
	}
	if idx < 3 {
		res.Sample = map[string]interface{}{"command": args, "fault_free_size": S, "limits": len(seen)}
	}
	return res
}
