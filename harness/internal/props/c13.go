package props

import (
	"fmt"
	"sort"
	"strconv"
	"strings"

	"verifharness/internal/fw"
	"verifharness/internal/gen"
	"verifharness/internal/model"
	"verifharness/internal/run"
)

func init() {
	fw.Register(&fw.Property{
		ID:         "C13",
		Level:      "exploration",
		Jitter:     true,
		RaceSample: true,
		Rule: "snps, variants and sam variants inputs with 1-30 sequences engineered so that mutations recur in k of n sequences; thresholds {0, 1, an occurring frequency passed as the same float64, just above / just below it}; --append-snps on/off; reference record inside the MSA (must not count) or taken from the annotation; two observed runs per case (per-sequence and --aggregate) related by counting; " +
			"distinct non-trivial = distinct (command, n, threshold kind, append-snps, number of distinct mutations class, a mutation at the threshold boundary present)",
		Assumptions: []string{"order is judged as: each line has a position interval (nuc/ins/del: its number; aa: the codon's positions) and the observed sequence must admit a non-decreasing choice",
			"frequencies are compared as the 9-decimal rendering of the same float64 expression count/n"},
		MinNontriv: 40,
		Cases: func(tier string) int {
			if tier == "thorough" {
				return 30000
			}
			return 2500
		},
		Run: runC13,
	})
}

func runC13(c *fw.Ctx, idx int) fw.Result {
	var res fw.Result
	r := fw.NewRng(c.Seed, "C13", idx)
	cmd := []string{"snps", "variants", "samvariants"}[r.Intn(3)]
	appendSNP := r.Chance(0.5)
	var perSeq, header string
	sharedName := map[string]bool{}
	var runAgg func(th float64) (string, error)
	var binSnps func(th float64, want string)
	var files map[string]string
	var argv []string
	var ac annoCase
	var posOf func(m string) (int, int, bool)
	n := 0
	refNamed := 0 // SAM form: queries that carry the reference's name
	switch cmd {
	case "snps":
		W := r.Range(1, 150)
		nq := r.Range(1, 64)
		vp := gen.DefaultVarProfile()
		vp.Recur = true
		vp.MaxInsSites = 0
		vp.PSub = 0.04
		if idx%250 == 17 {
			// a wide, diverse alignment: thousands of distinct SNPs, an aggregate table beyond
			// any write buffer (64 KiB and more)
			W = r.Range(1500, 2500)
			nq = r.Range(3, 5)
			vp.PSub = 0.9
			vp.Recur = false
			res.Count("snps_cases_with_large_aggregate_table", 1)
		}
		ref := gen.RandSeq(r, W, gen.SeqProfile{PAmbig: 0.03, PGap: 0.01})
		msa := gen.MakeVariantMSA(r, strings.ToUpper(ref), nq, vp)
		refTxt := gen.RefFasta("reference", ref, gen.PickLineWidth(r, W))
		if r.Chance(0.15) {
			// snps takes the reference from its own file: a query that happens to carry the
			// same ID is an ordinary query and counts like any other
			k := r.Intn(len(msa.Rows))
			msa.Rows[k].ID, msa.Rows[k].Desc = "reference", "reference"
			res.Count("snps_cases_with_query_named_like_reference", 1)
		}
		aln := noFinalNL(r, gen.RenderFasta(msa.Rows, gen.PickLineWidth(r, W)))
		refTxt = noFinalNL(r, refTxt)
		hard := r.Chance(0.3)
		var err error
		perSeq, err = run.SNPs(refTxt, aln, hard, false, 0)
		res.Evals++
		files = map[string]string{"ref.fasta": refTxt, "aln.fasta": aln, "observed_per_sequence.csv": perSeq}
		argv = []string{"snps", fmt.Sprintf("--hard-gaps=%v", hard), "--aggregate"}
		if err != nil {
			res.Fail(cmd+":error-on-valid-input", err.Error(), files, argv)
			return res
		}
		header = "SNP,frequency"
		runAgg = func(th float64) (string, error) { return run.SNPs(refTxt, aln, hard, true, th) }
		binSnps = func(th float64, want string) {
			thArg := strconv.FormatFloat(th, 'g', -1, 64)
			if th == 1 && idx%2 == 0 {
				thArg = "1.0"
			}
			binSample(c, &res, idx, "snps-aggregate", map[string]string{"ref.fasta": refTxt, "aln.fasta": aln}, func(p func(string) string) []string {
				a := []string{"snps", "-r", p("ref.fasta"), "-q", p("aln.fasta"), "--aggregate", "--threshold", thArg}
				return boolFlag(a, "hard-gaps", hard, idx%3 == 0)
			}, nil, []string{"", "-o"}[idx%2], want)
		}
		posOf = func(m string) (int, int, bool) {
			if len(m) < 3 {
				return 0, 0, false
			}
			p, e := strconv.Atoi(m[1 : len(m)-1])
			return p, p, e == nil
		}
		n = nq
	default:
		form := "fasta"
		if cmd == "samvariants" {
			form = "sam"
		}
		vp := gen.DefaultVarProfile()
		vp.Recur = true
		vp.PSub = 0.03
		opts := gen.AnnoOpts{MaxFeats: 4, AllowUnnamed: true, AllowSlip: true, SplitCodons: true, Rotate: true, NoStop: true, QuoteNames: true, DupNames: true, DupOverlap: true}
		if form == "fasta" && idx%120 == 13 {
			// a number of sequences with a large power of two in it: frequencies k/n that sit exactly
			// on a half of the 9th printed decimal (1/1024 = 0.0009765625)
			opts.ExactQueries = []int{1024, 2048, 512, 1536}[r.Intn(4)]
			opts.GenomeLen = r.Range(12, 60)
			res.Count("cases_with_power_of_two_sequence_count", 1)
		}
		ac = makeAnnoCase(r, c.Thorough(), []string{"gb", "gff"}[r.Intn(2)], form, vp, 50, opts)
		if form == "fasta" && len(ac.msa.Rows) >= 2 && r.Chance(0.15) {
			// two records with one ID are two sequences: both rows are written and both are counted
			j := r.Intn(len(ac.msa.Rows))
			k := r.Intn(len(ac.msa.Rows))
			if j != k && ac.msa.Rows[j].ID != ac.refID && ac.msa.Rows[k].ID != ac.refID {
				old, nn := ac.msa.Rows[k].ID, ac.msa.Rows[j].ID
				ac.msaTxt = strings.Replace(ac.msaTxt, ">"+ac.msa.Rows[k].Desc+"\n", ">"+nn+"\n", 1)
				if strings.Contains(ac.msaTxt, ">"+nn+"\n") && old != nn {
					ac.msa.Rows[k].ID, ac.msa.Rows[k].Desc = nn, nn
					res.Count("cases_with_repeated_sequence_id", 1)
				}
			}
		}
		if form == "sam" {
			// make SAM queries share mutations: derive them from a common mutated genome
			ac = recurSam(r, ac)
			if len(ac.sf.Queries) >= 2 && r.Chance(0.15) {
				// the reference genome itself among the aligned sequences, under its own name
				k := r.Intn(len(ac.sf.Queries))
				old := ac.sf.Queries[k].Name
				if !strings.Contains(ac.sf.Text, "\n"+ac.an.RefName+"\t") {
					ac.sf.Text = strings.ReplaceAll(ac.sf.Text, "\n"+old+"\t", "\n"+ac.an.RefName+"\t")
					ac.sf.Queries[k].Name = ac.an.RefName
					ac.names[k] = ac.an.RefName
					refNamed = 1
					res.Count("sam_cases_with_a_read_named_like_the_reference", 1)
				}
			}
		}
		var err error
		perSeq, err = ac.runVariants(-1, -1, false, 0, appendSNP, pickThreads(r))
		res.Evals++
		files = ac.files()
		files["observed_per_sequence.csv"] = perSeq
		argv = ac.argv("--aggregate", fmt.Sprintf("--append-snps=%v", appendSNP))
		if err != nil {
			res.Fail(cmd+":error-on-valid-input", err.Error(), files, argv)
			return res
		}
		header = "mutation,frequency"
		thr := pickThreads(r)
		runAgg = func(th float64) (string, error) { return ac.runVariants(-1, -1, true, th, appendSNP, thr) }
		featByName := map[string]gen.Feature{}
		for _, f := range ac.an.Named() {
			if _, dup := featByName[f.Name]; dup {
				// two features under one name: which of them an aa line belongs to, and hence where it
				// is filed and whether two equal lines are one mutation, cannot be told from the line
				sharedName[f.Name] = true
			}
			featByName[f.Name] = f
		}
		posOf = func(ms string) (int, int, bool) {
			m, ok := model.ParseMutation(ms)
			if !ok {
				return 0, 0, false
			}
			if m.Kind != "aa" {
				return m.Pos, m.Pos, true
			}
			f, ok := featByName[m.Feature]
			if !ok || sharedName[m.Feature] {
				return 0, 0, false
			}
			pos := f.CodingPositions()
			if 3*m.K > len(pos) || m.K < 1 {
				return 0, 0, false
			}
			lo, hi := pos[3*m.K-3], pos[3*m.K-3]
			for _, p := range pos[3*m.K-3 : 3*m.K] {
				if p < lo {
					lo = p
				}
				if p > hi {
					hi = p
				}
			}
			// the position an aa record is filed under is the codon's first base for a
			// contiguous codon; for a codon that spans a join it is not defined by the
			// property, so anything within two bases of the codon's extent is accepted
			return lo - 2, hi + 2, true
		}
		n = len(ac.names)
	}
	// count per-sequence output
	lines := strings.Split(strings.TrimSuffix(perSeq, "\n"), "\n")
	if refNamed > 0 && len(lines) == n+1-refNamed {
		// alignments named like the reference are taken for the reference record and left out of
		// the per-sequence output: the aggregate has to count over the same sequences
		n -= refNamed
	}
	if len(lines) != n+1 {
		res.Fail(cmd+":rows", fmt.Sprintf("per-sequence output has %d rows for %d sequences", len(lines)-1, n), files, argv)
		return res
	}
	count := map[string]int{}
	for _, l := range lines[1:] {
		i := strings.IndexByte(l, ',')
		if i < 0 || l[i+1:] == "" {
			continue
		}
		seen := map[string]bool{}
		for _, m := range strings.Split(l[i+1:], "|") {
			if !seen[m] {
				seen[m] = true
				count[m]++
			}
		}
	}
	// thresholds: every distinct occurring frequency (passed as the same float64), plus
	// values just above and just below one of them, 0 and 1
	type thr struct {
		kind string
		v    float64
	}
	var ths []thr
	seenF := map[float64]bool{}
	var freqs []float64
	for _, k := range count {
		f := float64(k) / float64(n)
		if !seenF[f] {
			seenF[f] = true
			freqs = append(freqs, f)
		}
	}
	sort.Float64s(freqs)
	if len(freqs) > 14 {
		p := r.Perm(len(freqs))
		var sel []float64
		for _, i := range p[:14] {
			sel = append(sel, freqs[i])
		}
		freqs = sel
	}
	for _, f := range freqs {
		ths = append(ths, thr{"equal", f})
	}
	ths = append(ths, thr{"zero", 0}, thr{"one", 1})
	if len(freqs) > 0 {
		f := freqs[r.Intn(len(freqs))]
		ths = append(ths, thr{"above", f + 1e-12}, thr{"below", f - 1e-12})
	}
	thKind := ""
	binDone := map[string]bool{}
	boundary := false
	got := map[string]string{}
	baseArgv := argv
	for _, t := range ths {
		th := t.v
		thKind = t.kind
		agg, err := runAgg(th)
		res.Evals++
		files["observed_aggregate.csv"] = agg
		argv = append(append([]string{}, baseArgv...), fmt.Sprintf("--threshold=%v", th))
		if err != nil {
			res.Fail(cmd+":error-on-valid-input", "aggregate run: "+err.Error(), files, argv)
			return res
		}
		alines := strings.Split(strings.TrimSuffix(agg, "\n"), "\n")
		if alines[0] != header {
			res.Fail(cmd+":header", "bad aggregate header "+alines[0], files, argv)
			return res
		}
		expect := map[string]string{}
		for m, k := range count {
			f := float64(k) / float64(n)
			if f >= th {
				expect[m] = strconv.FormatFloat(f, 'f', 9, 64)
			}
			if f == th {
				boundary = true
			}
		}
		got = map[string]string{}
		gotAll := map[string][]string{}
		lastLo := -1
		for _, l := range alines[1:] {
			i := strings.LastIndexByte(l, ',')
			if i < 0 {
				res.Fail(cmd+":line-format", "bad aggregate line "+l, files, argv)
				return res
			}
			m, f := l[:i], l[i+1:]
			if _, dup := got[m]; dup {
				if pm, okm := model.ParseMutation(m); okm && pm.Kind == "aa" && sharedName[pm.Feature] {
					res.Count("aggregate_lines_of_features_sharing_a_name_listed_more_than_once", 1)
				} else {
					res.Fail(cmd+":duplicate-line", "mutation listed twice in --aggregate output: "+m, files, argv)
				}
			}
			got[m] = f
			gotAll[m] = append(gotAll[m], f)
			lo, hi, ok := posOf(m)
			if ok {
				// greedy feasibility of a non-decreasing position choice
				if hi < lastLo {
					res.Fail(cmd+":aggregate-order", fmt.Sprintf("aggregate line %s (positions %d-%d) comes after position %d", m, lo, hi, lastLo), files, argv)
					lastLo = -1
				} else if lo > lastLo {
					lastLo = lo
				}
			}
		}
		// the text of an aa line of a feature that shares its name with another does not say which of
		// the features (which codon) it belongs to: equal texts may be different mutations, each with
		// its own line. Their exact frequencies are not judged ...
		unjudged := func(m string) bool {
			if len(sharedName) == 0 {
				return false
			}
			pm, okm := model.ParseMutation(m)
			return okm && pm.Kind == "aa" && sharedName[pm.Feature]
		}
		// ... but however many mutations hide behind one text, none of them can be in more sequences
		// than the text is
		for m, fs := range gotAll {
			if !unjudged(m) {
				continue
			}
			for _, f := range fs {
				v, e := strconv.ParseFloat(f, 64)
				res.Count("aggregate_lines_of_features_sharing_a_name_bounded", 1)
				if e != nil || v > float64(count[m])/float64(n)+6e-10 {
					res.Fail(cmd+":frequency-above-share-of-sequences", fmt.Sprintf("%s is reported with frequency %s but the per-sequence output of only %d of %d sequences contains it", m, f, count[m], n), files, argv)
				}
			}
		}
		for m, f := range expect {
			if unjudged(m) {
				continue
			}
			g, ok := got[m]
			if !ok {
				res.Fail(cmd+":missing-line:"+t.kind, fmt.Sprintf("%s occurs in %d of %d sequences (frequency %s >= threshold %v) but is not in the --aggregate output", m, count[m], n, f, th), files, argv)
			} else if g != f {
				res.Fail(cmd+":frequency", fmt.Sprintf("%s occurs in %d of %d sequences: expected frequency %s, reported %s", m, count[m], n, f, g), files, argv)
			}
		}
		for m, g := range got {
			if unjudged(m) {
				continue
			}
			if _, ok := expect[m]; !ok {
				res.Fail(cmd+":extra-line:"+t.kind, fmt.Sprintf("%s,%s is in the --aggregate output but occurs in %d of %d sequences with threshold %v", m, g, count[m], n, th), files, argv)
			}
		}
		res.Count("thresholds_"+t.kind, 1)
		if idx%5 == 2 && (t.kind == "equal" || t.kind == "one" || t.kind == "zero") && !binDone[t.kind] && len(res.Viol) == 0 {
			// the same --aggregate run through the binary, threshold printed with round-trip precision
			// (once per threshold kind: an occurring frequency, exactly 1, exactly 0)
			binDone[t.kind] = true
			if cmd == "snps" {
				binSnps(th, agg)
			} else {
				ac.binVariants(c, &res, idx, -1, -1, true, th, appendSNP, 2, agg)
			}
		}
		if len(res.Viol) > 0 {
			break
		}
	}
	agg := files["observed_aggregate.csv"]
	res.Count("aggregate_lines_checked", len(got))
	res.Count("distinct_mutations", len(count))
	if len(count) > 0 {
		dc := len(count) / 5
		if dc > 6 {
			dc = 6
		}
		res.Sig(fmt.Sprintf("%s|%d|%s|%v|%d|%v", cmd, n, thKind, appendSNP, dc, boundary))
		if boundary {
			res.Count("cases_with_frequency_equal_to_threshold", 1)
		}
	}
	if idx < 2 {
		res.Sample = map[string]interface{}{"argv": argv, "per_sequence": clipStr(perSeq, 600), "aggregate": clipStr(agg, 600)}
	}
	return res
}

// recurSam rebuilds the SAM file of a case so that queries share mutations:
// all queries are aligned to a reference-length genome that already carries a
// pool of substitutions.
func recurSam(r *fw.Rng, ac annoCase) annoCase {
	ref := ac.an.Ref
	pr := gen.DefaultSamProfile()
	pr.MaxQueries = 50
	pr.PSub = 0.01
	pr.PIns, pr.PDel, pr.PSkip = 0.01, 0.01, 0.003
	pr.MaxSegs = 2
	sf := gen.MakeSam(r, ref, pr)
	// shared substitutions: rewrite aligned bases of every record at pool positions
	type ed struct {
		p int
		b byte
	}
	var pool []ed
	for i := 0; i < 10; i++ {
		p := r.Intn(len(ref))
		pool = append(pool, ed{p, gen.OtherBase(r, ref[p])})
	}
	var sb strings.Builder
	for _, l := range strings.Split(strings.TrimSuffix(sf.Text, "\n"), "\n") {
		if strings.HasPrefix(l, "@") {
			sb.WriteString(l + "\n")
		}
	}
	hdr := sb.String()
	sb.Reset()
	sb.WriteString(hdr)
	// records that never contribute (unmapped, secondary), of any name, anywhere in the file:
	// they are not sequences and must not change any count
	nx := 0
	extraRecs := func(near string) {
		for r.Chance(0.12) {
			nx++
			name := near
			if r.Chance(0.6) {
				name = fmt.Sprintf("noise_%d", nx)
			}
			if r.Chance(0.5) {
				sb.WriteString(fmt.Sprintf("%s\t4\t*\t0\t0\t*\t*\t0\t0\t%s\t*\n", name, gen.Genome(r, r.Range(1, 20))))
			} else {
				p := r.Intn(len(ref))
				n := r.Range(1, len(ref)-p)
				if n > 25 {
					n = 25
				}
				sb.WriteString(fmt.Sprintf("%s\t256\t%s\t%d\t0\t%dM\t*\t0\t0\t%s\t*\n", name, ac.an.RefName, p+1, n, gen.Genome(r, n)))
			}
		}
	}
	extraRecs("leading")
	for qi := range sf.Queries {
		q := &sf.Queries[qi]
		use := map[int]byte{}
		for _, e := range pool {
			if r.Chance(0.5) {
				use[e.p] = e.b
			}
		}
		for ri := range q.Recs {
			rc := &q.Recs[ri]
			seq := []byte(rc.Seq)
			qp, rp := 0, rc.Pos
			for _, o := range rc.Cigar {
				switch o.T {
				case 'M', '=', 'X':
					for k := 0; k < o.N; k++ {
						if b, ok := use[rp]; ok {
							seq[qp] = b
						}
						qp++
						rp++
					}
				case 'I', 'S':
					qp += o.N
				case 'D', 'N':
					rp += o.N
				}
			}
			rc.Seq = string(seq)
			// =/X operators must stay truthful: rewrite them as M
			for k := range rc.Cigar {
				if rc.Cigar[k].T == '=' || rc.Cigar[k].T == 'X' {
					rc.Cigar[k].T = 'M'
				}
			}
			sb.WriteString(fmt.Sprintf("%s\t%d\t%s\t%d\t60\t%s\t*\t0\t0\t%s\t*\n", rc.Name, rc.Flag, ac.an.RefName, rc.Pos+1, rc.CigarString(), rc.Seq))
			extraRecs(q.Name)
		}
	}
	sf.Text = strings.ReplaceAll(sb.String(), "SN:"+sf.RefName+"\t", "SN:"+ac.an.RefName+"\t")
	sf.RefName = ac.an.RefName
	ac.sf = sf
	ac.names, ac.pairs = nil, nil
	for _, q := range sf.Queries {
		rr, qr, _ := model.PairAlign(q, ref)
		ac.names = append(ac.names, q.Name)
		ac.pairs = append(ac.pairs, model.NewPairView(rr, qr))
	}
	return ac
}
