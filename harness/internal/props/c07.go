package props

import (
	"fmt"
	"math"
	"strconv"
	"strings"

	"verifharness/internal/fw"
	"verifharness/internal/gen"
	"verifharness/internal/model"
	"verifharness/internal/run"
)

func init() {
	fw.Register(&fw.Property{
		ID:    "C07",
		Level: "exploration",
		Rule: "(a) exhaustive per-column table: for each of the 17x17 symbol pairs (a,b) query = a+PAD, target = b+PAD (PAD unambiguous, equal in both), observed through closest -n |T| --table with measure snp and raw, in four case layouts; (b) random pairs of width 4-400 over the full alphabet for snp/raw and mostly-A/C/G/T pairs with all four bases for tn93 (divergence below 25 %, and in a fifth of the cases 30-80 %, where defined distances above 1 occur), observed through closest -n |T| --table (|Q|x|T| distances per run), through closest -n K --table with K in {1,2,random} and an optional -d at an occurring distance (each listed row's distance is that of its own pair), through plain closest, plus swapped-file runs for symmetry; one case per run uses rows of 1.25-1.4 million columns with a million and more differing (snp, raw, -n |T| and -n 2 tables); " +
			"distinct non-trivial = distinct (measure, symbol pair, layout) cells plus distinct (measure, n, same, P1, P2, Tv) count tuples of random pairs with at least one difference",
		Assumptions: []string{"pairs whose distance is undefined (no jointly resolved site; tn93 log argument <= 1e-6 or a zero target base frequency) are skipped and counted, their ordering is C06's business",
			"tn93 is compared with tolerance 1e-9 + 1e-7*|d| (9 printed decimals)"},
		MinNontriv: 2 * 289,
		Cases: func(tier string) int {
			if tier == "thorough" {
				return 8 + 60000
			}
			return 8 + 600
		},
		Run: runC07,
	})
}

// parseTable parses "query,target,distance" rows into map[q][t]=distance string.
func parseTable(out string) (map[string]map[string]string, []string, bool) {
	lines := strings.Split(strings.TrimSuffix(out, "\n"), "\n")
	if len(lines) == 0 || lines[0] != "query,target,distance" {
		return nil, nil, false
	}
	m := map[string]map[string]string{}
	var order []string
	for _, l := range lines[1:] {
		f := strings.Split(l, ",")
		if len(f) != 3 {
			return nil, nil, false
		}
		if m[f[0]] == nil {
			m[f[0]] = map[string]string{}
		}
		m[f[0]][f[1]] = f[2]
		order = append(order, f[0]+"\x00"+f[1])
	}
	return m, order, true
}

func fmt9(x float64) string { return strconv.FormatFloat(x, 'f', 9, 64) }

// checkPairDistance compares one printed distance with the model. Returns
// (ok, skipped).
func checkPairDistance(measure, q, t, printed string) (string, bool) {
	c := model.Counts(q, t)
	switch measure {
	case "snp":
		if printed != strconv.Itoa(c.N) {
			return fmt.Sprintf("snp distance printed %s, model %d", printed, c.N), false
		}
	case "raw":
		if c.N+c.Same == 0 {
			return "", true
		}
		want := fmt9(float64(c.N) / float64(c.N+c.Same))
		if printed != want {
			return fmt.Sprintf("raw distance printed %s, model %s (n=%d same=%d)", printed, want, c.N, c.Same), false
		}
		v, _ := strconv.ParseFloat(printed, 64)
		if v < 0 || v > 1 {
			return "raw distance outside [0,1]: " + printed, false
		}
	case "tn93":
		d, ok := model.TN93(q, t)
		if !ok {
			return "", true
		}
		v, err := strconv.ParseFloat(printed, 64)
		// the printed value has 9 decimals: it is within half a unit of the last place of the
		// definition (plus the float64 noise of evaluating the formula in another order)
		if err != nil || math.IsNaN(v) || math.Abs(v-d) > 6e-10+1e-12*math.Abs(d) {
			return fmt.Sprintf("tn93 distance printed %s, model %.12f (P1=%d P2=%d Tv=%d L=%d)", printed, d, c.P1, c.P2, c.Tv, c.Res), false
		}
	}
	return "", false
}

// c07Megabase is one pair set at the scale of a bacterial genome: counts of a million and more
// (where a float prints in exponent form and a 32-bit float loses the last digits).
func c07Megabase(r *fw.Rng) fw.Result {
	var res fw.Result
	W := r.Range(1250000, 1400000)
	q := strings.Repeat("A", W)
	mk := func(n int) string { return strings.Repeat("C", n) + strings.Repeat("A", W-n) }
	ns := []int{W - r.Range(100, 900), 1000000 + r.Intn(200000), 999999, 1000000, 2}
	qs := []gen.FastaRec{{ID: "q", Desc: "q", Seq: q}}
	var ts []gen.FastaRec
	for i, n := range ns {
		ts = append(ts, gen.FastaRec{ID: fmt.Sprintf("t%d", i), Desc: fmt.Sprintf("t%d", i), Seq: mk(n)})
	}
	qText, tText := gen.RenderFasta(qs, 500), gen.RenderFasta(ts, 700)
	for _, measure := range []string{"snp", "raw"} {
		for _, K := range []int{len(ts), 2} {
			out, err := run.ClosestN(K, -1.0, qText, tText, measure, true, 2)
			res.Evals++
			argv := []string{"closest", "-m", measure, "-n", fmt.Sprint(K), "--table"}
			files := map[string]string{"note.txt": fmt.Sprintf("query: %d x A; targets: n x C then A, n = %v (inputs of %d columns are not stored)", W, ns, W), "observed.csv": out}
			if err != nil {
				res.Fail("error-on-valid-input", "closest failed on megabase rows: "+err.Error(), files, argv)
				return res
			}
			lines := strings.Split(strings.TrimSuffix(out, "\n"), "\n")
			for _, l := range lines[1:] {
				f := strings.Split(l, ",")
				if len(f) != 3 || len(f[1]) < 2 {
					res.Fail("table-format", "bad table row "+l, files, argv)
					continue
				}
				var j int
				fmt.Sscan(f[1][1:], &j)
				if j < 0 || j >= len(ns) {
					continue
				}
				want := strconv.Itoa(ns[j])
				if measure == "raw" {
					want = fmt9(float64(ns[j]) / float64(W))
				}
				res.Count("megabase_distances_compared_"+measure, 1)
				res.Sig(fmt.Sprintf("mega|%s|%d", measure, j))
				if f[2] != want {
					res.Fail("distance-"+measure+"-megabase", fmt.Sprintf("pair q,%s over %d columns with %d differing: printed %s, definition gives %s", f[1], W, ns[j], f[2], want), files, argv)
				}
			}
		}
	}
	return res
}

func runC07(c *fw.Ctx, idx int) fw.Result {
	var res fw.Result
	r := fw.NewRng(c.Seed, "C07", idx)
	if idx == 9 {
		return c07Megabase(r)
	}
	var qs, ts []gen.FastaRec
	measure := "snp"
	layout := -1
	if idx < 8 {
		layout = idx % 4
		if idx >= 4 {
			measure = "raw"
		}
		const pad = "ACGTACG"
		A := model.Alphabet17
		for i := 0; i < len(A); i++ {
			qsym, tsym := string(A[i]), string(A[i])
			qp, tp := pad, pad
			switch layout {
			case 1:
				qsym, qp = strings.ToLower(qsym), strings.ToLower(pad)
			case 2:
				tsym, tp = strings.ToLower(tsym), strings.ToLower(pad)
			case 3:
				if i%2 == 0 {
					qsym = strings.ToLower(qsym)
				} else {
					tsym = strings.ToLower(tsym)
				}
			}
			qs = append(qs, gen.FastaRec{ID: fmt.Sprintf("q%d", i), Desc: fmt.Sprintf("q%d", i), Seq: qsym + qp})
			ts = append(ts, gen.FastaRec{ID: fmt.Sprintf("t%d", i), Desc: fmt.Sprintf("t%d", i), Seq: tsym + tp})
		}
	} else {
		measure = []string{"snp", "raw", "tn93"}[r.Intn(3)]
		W := r.Range(4, 400)
		nq, nt := r.Range(1, 4), r.Range(1, 25)
		var base string
		p := gen.SeqProfile{PAmbig: 0.12, PGap: 0.06, PQ: 0.02, PLower: 0.15}
		rate := 0.2
		if measure == "tn93" {
			W = r.Range(40, 400)
			p = gen.SeqProfile{PAmbig: 0.02, PGap: 0.01, PLower: 0.1}
			rate = r.Float() * 0.2
			if r.Chance(0.2) {
				// very divergent but still defined pairs: eq. 7 is an expected number of substitutions
				// per site and exceeds 1 well before its logarithms stop being defined
				rate = 0.3 + r.Float()*0.5
			}
		}
		base = gen.Genome(r, W)
		for i := 0; i < nq; i++ {
			qs = append(qs, gen.FastaRec{ID: fmt.Sprintf("q%d", i), Desc: fmt.Sprintf("q%d desc", i), Seq: gen.Mutate(r, base, rate/2, p)})
		}
		for i := 0; i < nt; i++ {
			s := gen.Mutate(r, base, rate, p)
			if r.Chance(0.1) {
				s = qs[r.Intn(nq)].Seq // identical to a query
			}
			ts = append(ts, gen.FastaRec{ID: fmt.Sprintf("t%d", i), Desc: fmt.Sprintf("t%d", i), Seq: s})
		}
		if measure != "tn93" && r.Chance(0.08) {
			// a pair without a single agreeing column: raw is n/(n+0) = 1, the top of its range
			b := []byte(qs[0].Seq)
			for k := range b {
				if model.IsACGT(b[k]) {
					b[k] = gen.OtherBase(r, model.Upper(b[k]))
				}
			}
			ts[r.Intn(nt)].Seq = string(b)
		}
		if r.Chance(0.25) {
			// a target that carries the name of a query (an older version of the same genome in
			// the database): distances are functions of the two sequences, never of the names
			k, j := r.Intn(nq), r.Intn(nt)
			ts[j].ID, ts[j].Desc = qs[k].ID, qs[k].Desc
		}
	}
	gen.Describe(r, qs)
	gen.Describe(r, ts)
	W := len(qs[0].Seq)
	qText := noFinalNL(r, gen.RenderFasta(qs, gen.PickLineWidth(r, W)))
	tText := noFinalNL(r, gen.RenderFasta(ts, gen.PickLineWidth(r, W)))
	threads := []int{0, 1, 2, 16}[r.Intn(4)]
	out, err := run.ClosestN(len(ts), -1.0, qText, tText, measure, true, threads)
	res.Evals++
	files := map[string]string{"query.fasta": qText, "target.fasta": tText, "observed.csv": out}
	argv := []string{"closest", "-m", measure, "-n", fmt.Sprint(len(ts)), "--table"}
	if err != nil {
		res.Fail("error-on-valid-input", "closest.ClosestN returned an error: "+err.Error(), files, argv)
		return res
	}
	if idx%15 == 11 {
		// (an undefined distance is not within any bound: the bound is only added when every listed distance is defined)
		bigD := idx%2 == 0 && !strings.Contains(out, "Inf") && !strings.Contains(out, "NaN")
		binSample(c, &res, idx, "closest", map[string]string{"query.fasta": qText, "target.fasta": tText}, func(p func(string) string) []string {
			a := []string{"closest", "--query", p("query.fasta"), "--target", p("target.fasta"), "-n", fmt.Sprint(len(ts)), "--table"}
			if measure != "raw" || idx%4 < 2 {
				a = append(a, "-m", spellMeasure(measure, idx)) // raw is the documented default and may be left out
			}
			if bigD {
				// every distance is within these: same output
				a = append(a, "-d", []string{"1000", "1e19", "inf", "1e300", "+Inf", "9223372036854775808"}[fw.Mix(uint64(idx)+17)%6])
			}
			if threads != 0 {
				a = append(a, "-t", fmt.Sprint(threads))
			}
			return a
		}, nil, []string{"", "-o"}[fw.Mix(uint64(idx)+5)%2], out)
	}
	tab, _, ok := parseTable(out)
	if !ok {
		res.Fail("table-format", "closest --table output is not query,target,distance rows", files, argv)
		return res
	}
	for _, q := range qs {
		for _, t := range ts {
			printed, ok := tab[q.ID][t.ID]
			if !ok {
				res.Fail("missing-pair", fmt.Sprintf("no row for pair %s,%s although -n equals the number of targets", q.ID, t.ID), files, argv)
				continue
			}
			msg, skipped := checkPairDistance(measure, q.Seq, t.Seq, printed)
			if skipped {
				res.Count("pairs_skipped_undefined", 1)
				continue
			}
			res.Count("pairs_compared_"+measure, 1)
			if msg != "" {
				res.Fail("distance-"+measure, fmt.Sprintf("pair %s,%s: %s", q.ID, t.ID, msg), files, argv)
			}
			cc := model.Counts(q.Seq, t.Seq)
			if layout >= 0 {
				res.Sig(fmt.Sprintf("cell|%s|%c|%c|%d", measure, model.Upper(q.Seq[0]), model.Upper(t.Seq[0]), layout))
			} else if cc.N > 0 {
				res.Sig(fmt.Sprintf("pair|%s|%d|%d|%d|%d|%d", measure, cc.N, cc.Same, cc.P1, cc.P2, cc.Tv))
			}
			// identical unambiguous sequences have distance 0
			if upperStr(q.Seq) == upperStr(t.Seq) && cc.Res == len(q.Seq) {
				res.Count("identical_unambiguous_pairs", 1)
				if v, e := strconv.ParseFloat(printed, 64); e != nil || v != 0 {
					res.Fail("identical-nonzero", fmt.Sprintf("identical unambiguous pair %s,%s has distance %s", q.ID, t.ID, printed), files, argv)
				}
			}
		}
	}
	// plain closest (no -n): the distance printed in each row is that of the row's own query and
	// the returned target, also when two query records carry the same ID
	if layout < 0 {
		qs2 := append([]gen.FastaRec{}, qs...)
		if len(qs2) >= 2 && r.Chance(0.4) {
			k, j := r.Intn(len(qs2)), r.Intn(len(qs2))
			if k != j {
				qs2[j].ID, qs2[j].Desc = qs2[k].ID, qs2[k].Desc
				res.Count("plain_runs_with_repeated_query_id", 1)
			}
		}
		q2Text := gen.RenderFasta(qs2, gen.PickLineWidth(r, W))
		pout, perr := run.Closest(q2Text, tText, measure, threads)
		res.Evals++
		pf := map[string]string{"query.fasta": q2Text, "target.fasta": tText, "observed.csv": pout}
		pargv := []string{"closest", "-m", measure}
		if perr != nil {
			res.Fail("error-on-valid-input", "closest.Closest returned an error: "+perr.Error(), pf, pargv)
			return res
		}
		tByID := map[string]gen.FastaRec{}
		for _, t := range ts {
			tByID[t.ID] = t
		}
		lines := strings.Split(strings.TrimSuffix(pout, "\n"), "\n")
		if len(lines) != len(qs2)+1 || lines[0] != "query,closest,distance,SNPs" {
			res.Fail("plain-rows", fmt.Sprintf("plain closest wrote %d lines for %d queries", len(lines), len(qs2)), pf, pargv)
		} else {
			for i, q := range qs2 {
				f := strings.SplitN(lines[i+1], ",", 4)
				if len(f) != 4 || f[0] != q.ID {
					res.Fail("plain-rows", fmt.Sprintf("row %d is %q, expected the row of query %s", i+1, lines[i+1], q.ID), pf, pargv)
					break
				}
				t, ok := tByID[f[1]]
				if !ok {
					res.Fail("plain-rows", fmt.Sprintf("row %d names the unknown target %q", i+1, f[1]), pf, pargv)
					break
				}
				msg, skipped := checkPairDistance(measure, q.Seq, t.Seq, f[2])
				if skipped {
					continue
				}
				res.Count("plain_rows_compared_"+measure, 1)
				if msg != "" {
					res.Fail("plain-distance-"+measure, fmt.Sprintf("row %d (query %s, closest %s): %s", i+1, q.ID, t.ID, msg), pf, pargv)
				}
			}
		}
	}
	// the distance of a listed pair is the same whatever the capacity and the distance bound: the
	// table with -n K (K = 1, 2, or anything below the number of targets) and an optional -d lists
	// fewer rows, each with the distance of its own pair
	if layout < 0 {
		K := []int{1, 1, 2, 1 + r.Intn(len(ts))}[r.Intn(4)]
		D := -1.0
		if r.Chance(0.3) {
			if v, e := strconv.ParseFloat(tab[qs[0].ID][ts[r.Intn(len(ts))].ID], 64); e == nil && !math.IsNaN(v) && !math.IsInf(v, 0) {
				D = v
			}
		}
		kout, kerr := run.ClosestN(K, D, qText, tText, measure, true, threads)
		res.Evals++
		kf := map[string]string{"query.fasta": qText, "target.fasta": tText, "observed.csv": kout}
		kargv := []string{"closest", "-m", measure, "-n", fmt.Sprint(K), "-d", fmt.Sprint(D), "--table"}
		klines := strings.Split(strings.TrimSuffix(kout, "\n"), "\n")
		if kerr != nil || klines[0] != "query,target,distance" {
			res.Fail("error-on-valid-input", fmt.Sprintf("closest -n %d --table failed or wrote no table: %v", K, kerr), kf, kargv)
		} else {
			qByID, tByID := map[string]gen.FastaRec{}, map[string]gen.FastaRec{}
			for _, q := range qs {
				qByID[q.ID] = q
			}
			for _, t := range ts {
				tByID[t.ID] = t
			}
			for i, l := range klines[1:] {
				f := strings.Split(l, ",")
				if len(f) != 3 {
					res.Fail("table-format", fmt.Sprintf("row %d of the -n %d table is %q", i+1, K, l), kf, kargv)
					break
				}
				q, ok1 := qByID[f[0]]
				t, ok2 := tByID[f[1]]
				if !ok1 || !ok2 {
					res.Fail("table-format", fmt.Sprintf("row %d of the -n %d table names an unknown record: %q", i+1, K, l), kf, kargv)
					break
				}
				msg, skipped := checkPairDistance(measure, q.Seq, t.Seq, f[2])
				if skipped {
					continue
				}
				res.Count("small_n_table_rows_compared_"+measure, 1)
				if K == 1 {
					res.Count("n1_table_rows_compared", 1)
				}
				if msg != "" {
					res.Fail("small-n-distance-"+measure, fmt.Sprintf("-n %d table row %d (query %s, target %s): %s", K, i+1, q.ID, t.ID, msg), kf, kargv)
				}
			}
		}
	}
	// symmetry: swap the files (snp, raw)
	if measure != "tn93" {
		out2, err2 := run.ClosestN(len(qs), -1.0, tText, qText, measure, true, threads)
		res.Evals++
		tab2, _, ok2 := parseTable(out2)
		if err2 != nil || !ok2 {
			res.Fail("error-on-valid-input", fmt.Sprintf("swapped run failed: %v", err2), files, argv)
		} else {
			for _, q := range qs {
				for _, t := range ts {
					a, b := tab[q.ID][t.ID], tab2[t.ID][q.ID]
					if a == "NaN" || b == "NaN" {
						continue
					}
					res.Count("symmetry_pairs", 1)
					if a != b {
						files["observed_swapped.csv"] = out2
						res.Fail("asymmetric-"+measure, fmt.Sprintf("d(%s,%s)=%s but d(%s,%s)=%s", q.ID, t.ID, a, t.ID, q.ID, b), files, argv)
					}
				}
			}
		}
	}
	if idx == 0 || idx == 8 {
		o := out
		if len(o) > 500 {
			o = o[:500] + "..."
		}
		res.Sample = map[string]interface{}{"query": clipStr(qText, 400), "target": clipStr(tText, 400), "argv": argv, "observed": o}
	}
	return res
}

func clipStr(s string, n int) string {
	if len(s) > n {
		return s[:n] + "..."
	}
	return s
}
