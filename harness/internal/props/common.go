package props

import (
	"fmt"
	"os"
	"os/exec"
	"path/filepath"
	"runtime"
	"strings"
	"syscall"
	"time"

	"verifharness/internal/fw"
)

// binSample runs the real gofasta binary on the files of a case and compares
// its standard output (or, when outFlag is set, the file given to that flag)
// with `want`, the output the in-process entry point produced for the same
// case and that the property's oracle has already judged. It closes the gap
// between the exported entry points and the command-line layer (flag parsing,
// defaults, suffix detection, file opening, exit status).
func binSample(c *fw.Ctx, res *fw.Result, idx int, tag string, files map[string]string, args func(p func(string) string) []string, stdin []byte, outFlag string, want string) {
	if c.Bin == "" {
		return
	}
	d := filepath.Join(c.Tmp, fmt.Sprintf("bin-%s-%d", tag, idx))
	os.MkdirAll(d, 0755)
	defer os.RemoveAll(d)
	p := func(name string) string {
		actual := name
		if fw.Mix(uint64(idx)*131+uint64(len(name))+uint64(name[0]))%4 == 0 {
			// a file name with characters that mean something to a shell or to a glob matcher but
			// nothing to open(2): `batch[1].sam` next to an unrelated `batch1.sam`
			ext := filepath.Ext(name)
			stem := strings.TrimSuffix(name, ext)
			actual = stem + "[1]" + ext
			decoy := filepath.Join(d, stem+"1"+ext)
			if _, err := os.Stat(decoy); err != nil {
				os.WriteFile(decoy, []byte(staleContent(300)), 0644)
				res.Count("binary_input_files_named_like_a_glob_pattern", 1)
			}
		}
		fp := filepath.Join(d, actual)
		if _, err := os.Stat(fp); err != nil {
			os.WriteFile(fp, []byte(files[name]), 0644)
		}
		return fp
	}
	argv := respell(args(p), idx)
	outPath := filepath.Join(d, "result.out")
	if outFlag != "" {
		argv = append(argv, outFlag, outPath)
		if fw.Mix(uint64(idx)+1234)%2 == 0 {
			// the output file already exists and holds a longer, unrelated earlier result
			os.WriteFile(outPath, []byte(staleContent(len(want)+500)), 0644)
			res.Count("binary_runs_over_existing_output_file", 1)
		}
	}
	// a share of the runs sees one or two processors only (runtime.NumCPU follows the affinity mask)
	bin, fullArgv := c.Bin, argv
	cpus := 0
	if _, err := exec.LookPath("taskset"); err == nil && runtime.NumCPU() > 2 {
		switch fw.Mix(uint64(idx)+77) % 5 {
		case 1:
			cpus = 1
		case 3:
			cpus = 2
		}
	}
	if cpus > 0 {
		bin, fullArgv = "taskset", append([]string{"-c", fmt.Sprintf("0-%d", cpus-1), c.Bin}, argv...)
		res.Count(fmt.Sprintf("binary_runs_with_%d_cpu", cpus), 1)
		argv = append([]string{fmt.Sprintf("[taskset -c 0-%d]", cpus-1)}, argv...)
	}
	// a share of the runs has its temporary directory on another filesystem than the output
	// (TMPDIR on a tmpfs, the result on disk): where the command puts scratch files is its own business
	var env []string
	if fw.Mix(uint64(idx)+909)%3 == 0 {
		if td := otherFilesystemDir(d, idx); td != "" {
			defer os.RemoveAll(td)
			env = []string{"TMPDIR=" + td}
			res.Count("binary_runs_with_TMPDIR_on_another_filesystem", 1)
		}
	}
	var br fw.BinResult
	if outFlag == "" {
		// standard output is a small pipe with a slow reader (a pager, a throttled consumer)
		br = fw.RunBinSlowPipe(bin, fullArgv, stdin, env, d, 40*time.Second)
		if len(want) > 12288 {
			res.Count("binary_stdout_runs_larger_than_3_pipe_buffers", 1)
		}
	} else if stdin != nil && fw.Mix(uint64(idx)+4242)%2 == 0 {
		// `gofasta ... < file`: standard input is a regular file, not a pipe
		sp := filepath.Join(d, "stdin.redirect")
		os.WriteFile(sp, stdin, 0644)
		br = fw.RunBinStdinFile(bin, fullArgv, sp, env, d, 40*time.Second)
		res.Count("binary_runs_with_stdin_redirected_from_a_file", 1)
	} else {
		br = fw.RunBin(bin, fullArgv, stdin, env, d, 40*time.Second)
	}
	res.Evals++
	res.Count("binary_runs", 1)
	if br.TimedOut {
		binHang(res, br, tag, files, argv)
		return
	}
	got := string(br.Stdout)
	if outFlag != "" {
		b, _ := os.ReadFile(outPath)
		got = string(b)
	}
	if br.Exit != 0 || got != want {
		f := cloneFiles(files)
		f["binary_output.txt"] = got
		f["entry_point_output.txt"] = want
		f["stderr.txt"] = clipStr(string(br.Stderr), 4000)
		res.Fail("binary-vs-entry-point:"+tag, fmt.Sprintf("gofasta %v (exit %d) does not produce the output of the entry point called with the same options: %s", argv, br.Exit, firstDiff(want, got)), f, argv)
	}
}

// switches lists the boolean flags of each gofasta command (cobra/pflag switches: `--x`, `--x=true`,
// `--x=false` and leaving the flag out are all documented spellings).
var switches = map[string][]string{
	"closest":           {"table"},
	"sam toMultiAlign":  {"pad"},
	"sam toPairAlign":   {"omit-reference", "skip-insertions"},
	"sam variants":      {"aggregate", "append-snps"},
	"snps":              {"hard-gaps", "aggregate"},
	"updown topranking": {"table", "no-fill"},
	"variants":          {"aggregate", "append-snps"},
	"updown list":       {},
	"sam indels":        {},
}

// respell rewrites a gofasta command line into an equivalent one the way scripts and wrappers
// write them: a switch that is on as `--x=true`, a switch that is off as an explicit `--x=false`,
// `--flag value` as `--flag=value`. Which rewriting a case gets is a hash of its index. The
// meaning of the command line is unchanged, so the expected output is too.
func respell(argv []string, idx int) []string {
	if len(argv) == 0 {
		return argv
	}
	cmd := argv[0]
	n := 1
	if len(argv) > 1 && (argv[0] == "sam" || argv[0] == "updown") {
		cmd, n = argv[0]+" "+argv[1], 2
	}
	sw, known := switches[cmd]
	if !known {
		return argv
	}
	isSwitch := map[string]bool{}
	for _, x := range sw {
		isSwitch["--"+x] = true
	}
	isSwitch["--trim"] = true // hidden legacy switch of toMultiAlign: left as the caller wrote it
	h := fw.Mix(uint64(idx)*2654435761 + 99)
	out := append([]string{}, argv[:n]...)
	present := map[string]bool{}
	for i := n; i < len(argv); i++ {
		a := argv[i]
		name := a
		if k := strings.IndexByte(a, '='); k > 0 {
			name = a[:k]
		}
		present[name] = true
		switch {
		case isSwitch[a] && a != "--trim" && h%4 == 1:
			out = append(out, a+"=true")
		case strings.HasPrefix(a, "--") && !strings.Contains(a, "=") && !isSwitch[a] && i+1 < len(argv) && h%5 == 2:
			out = append(out, a+"="+argv[i+1])
			i++
		default:
			out = append(out, a)
		}
	}
	if h%3 == 0 {
		for _, x := range sw {
			if !present["--"+x] {
				out = append(out, "--"+x+"=false")
			}
		}
	}
	return out
}

// otherFilesystemDir makes a scratch directory on a filesystem other than that of dir (a tmpfs),
// or returns "" when the host has none.
func otherFilesystemDir(dir string, idx int) string {
	const shm = "/dev/shm"
	var a, b syscall.Stat_t
	if syscall.Stat(shm, &a) != nil || syscall.Stat(dir, &b) != nil || a.Dev == b.Dev {
		return ""
	}
	td, err := os.MkdirTemp(shm, fmt.Sprintf("vtmp-%d-", idx))
	if err != nil {
		return ""
	}
	return td
}

// staleContent is n bytes of plausible stale output.
func staleContent(n int) string {
	line := ">stale_record_from_an_earlier_run\nACGTACGTACGTACGTACGTACGTACGTACGTACGTACGTACGTACGTACGTACGTACGT\n"
	var b []byte
	for len(b) < n {
		b = append(b, line...)
	}
	return string(b)
}

// boolFlag renders a boolean switch: `--name` when true, and when false either nothing or an
// explicit `--name=false` (both spellings are valid for cobra/pflag switches).
func boolFlag(a []string, name string, v bool, explicit bool) []string {
	if v {
		return append(a, "--"+name)
	}
	if explicit {
		return append(a, "--"+name+"=false")
	}
	return a
}

// spellMeasure spells a distance measure the way users do: the command accepts any letter case.
func spellMeasure(m string, idx int) string {
	switch fw.Mix(uint64(idx)+31) % 4 {
	case 1:
		return strings.ToUpper(m)
	case 2:
		return strings.ToUpper(m[:1]) + m[1:]
	}
	return m
}

// binHang records a binary run that hit its watchdog: a goroutine dump in which every gofasta
// goroutine is blocked on a channel is a violation (the command never terminates); anything
// else is inconclusive.
func binHang(res *fw.Result, br fw.BinResult, tag string, files map[string]string, argv []string) {
	if fw.AnalyseDump(br.Dump) == "deadlock" {
		f := cloneFiles(files)
		f["goroutines.txt"] = clipStr(br.Dump, 40000)
		res.Fail("binary-deadlock:"+tag, fmt.Sprintf("gofasta %v never terminates: closed channel deadlock", argv), f, argv)
		return
	}
	res.Inconclusive = append(res.Inconclusive, "binary watchdog fired ("+tag+")")
}

// noFinalNL returns the text without its final newline in about one case in eight: a file whose
// last line is not newline-terminated is the same file.
func noFinalNL(r *fw.Rng, s string) string {
	if r.Chance(0.12) {
		return strings.TrimSuffix(s, "\n")
	}
	return s
}
