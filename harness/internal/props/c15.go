package props

import (
	"fmt"
	"math"
	"os"
	"path/filepath"
	"sort"
	"strings"
	"time"

	"verifharness/internal/fw"
	"verifharness/internal/gen"
	"verifharness/internal/model"
	"verifharness/internal/run"
)

func init() {
	fw.Register(&fw.Property{
		ID:         "C15",
		Level:      "exploration",
		Jitter:     true,
		RaceSample: true,
		Rule: "relations between observed runs: (0) toMultiAlign --start/--end vs the untrimmed run, all windows for references of length <= 14 and 30 random windows (incl. s=1, e=L, s=e, each bound alone) otherwise, pad on/off; (1) legacy --trim/--trimstart/--trimend vs --start/--end through the binary, incl. refusal of mixed flag families; (2) toPairAlign --start/--end vs the untrimmed pair cut at the columns of reference bases s and e; (3) --wrap w in {1,2,3,59,60,61,L-1,L,L+1,10^6} for toMultiAlign and toPairAlign; (4) variants / sam variants with --start, --end or both (per-sequence and --aggregate) vs the unrestricted list filtered by position; (5) stdin vs file for variants through the binary; " +
			"distinct non-trivial = distinct (relation kind, window shape, pad, wrap class, format/form) instances",
		Assumptions: []string{"for aa records the position is the codon's first base in reading order; codons spanning a join or straddling a window bound are not judged"},
		MinNontriv:  40,
		Cases: func(tier string) int {
			if tier == "thorough" {
				return 36000
			}
			return 1200
		},
		Run: runC15,
	})
}

func rowsOf(out string) ([]string, []string) {
	ids, seqs, _ := parseFasta(out)
	return ids, seqs
}

func c15Windows(r *fw.Rng, L int) [][2]int {
	var ws [][2]int
	if L <= 14 {
		for s := 1; s <= L; s++ {
			for e := s; e <= L; e++ {
				ws = append(ws, [2]int{s, e})
			}
		}
	} else {
		ws = append(ws, [2]int{1, L}, [2]int{1, 1}, [2]int{L, L})
		for i := 0; i < 27; i++ {
			s := r.Range(1, L)
			e := r.Range(s, L)
			if i%5 == 0 {
				e = s
			}
			ws = append(ws, [2]int{s, e})
		}
	}
	for i := 0; i < 4; i++ {
		ws = append(ws, [2]int{r.Range(1, L), -1}, [2]int{-1, r.Range(1, L)})
	}
	return ws
}

func winShape(w [2]int, L int) string {
	switch {
	case w[0] == -1:
		return "end-only"
	case w[1] == -1:
		return "start-only"
	case w[0] == w[1]:
		return "single"
	case w[0] == 1 && w[1] == L:
		return "full"
	case w[0] == 1:
		return "from1"
	case w[1] == L:
		return "toL"
	}
	return "inner"
}

func runC15(c *fw.Ctx, idx int) fw.Result {
	var res fw.Result
	r := fw.NewRng(c.Seed, "C15", idx)
	kind := idx % 6
	switch kind {
	case 0, 1, 2, 3:
		L := r.Range(1, 14)
		if r.Chance(0.5) {
			L = r.Range(15, 200)
		}
		ref := gen.Genome(r, L)
		pr := gen.DefaultSamProfile()
		pr.MaxQueries = 4
		pr.AllowConflict = kind == 0
		sf := gen.MakeSam(r, ref, pr)
		refFasta := gen.RefFasta(sf.RefName, ref, 0)
		files := map[string]string{"in.sam": sf.Text, "ref.fasta": refFasta}
		switch kind {
		case 0: // toMultiAlign windows
			for _, pad := range []bool{false, true} {
				full, err := run.ToMultiAlign(sf.Text, -1, -1, -1, pad, pickThreads(r))
				res.Evals++
				if err != nil {
					res.Fail("error-on-valid-input", err.Error(), files, nil)
					return res
				}
				ids, rows := rowsOf(full)
				for _, w := range c15Windows(r, L) {
					got, err := run.ToMultiAlign(sf.Text, -1, w[0], w[1], pad, pickThreads(r))
					res.Evals++
					argv := []string{"sam", "toMultiAlign", fmt.Sprintf("--start=%d", w[0]), fmt.Sprintf("--end=%d", w[1]), fmt.Sprintf("--pad=%v", pad)}
					if err != nil {
						res.Fail("toma-window:error-on-valid-window", fmt.Sprintf("window %v: %v", w, err), files, argv)
						continue
					}
					s, e := w[0], w[1]
					if s == -1 {
						s = 1
					}
					if e == -1 {
						e = L
					}
					var exp []string
					for _, row := range rows {
						if pad {
							b := []byte(row)
							for i := range b {
								if i < s-1 || i >= e {
									b[i] = 'N'
								}
							}
							exp = append(exp, string(b))
						} else {
							exp = append(exp, row[s-1:e])
						}
					}
					want := model.FastaText(ids, exp, -1)
					res.Count("toma_window_relations", 1)
					res.Sig(fmt.Sprintf("toma|%s|%v|%v", winShape(w, L), pad, L <= 14))
					if got != want {
						f2 := map[string]string{"in.sam": sf.Text, "untrimmed.fasta": full, "observed.fasta": got, "expected.fasta": want}
						res.Fail("toma-window", fmt.Sprintf("window %v pad=%v: output is not the window of the untrimmed run: %s", w, pad, firstDiff(want, got)), f2, argv)
					}
				}
			}
			if L <= 14 {
				res.Count("references_with_all_windows_enumerated", 1)
			}
		case 1: // legacy flags (binary)
			if c.Bin == "" {
				return res
			}
			d := filepath.Join(c.Tmp, fmt.Sprintf("c15-%d", idx))
			os.MkdirAll(d, 0755)
			defer os.RemoveAll(d)
			sp := filepath.Join(d, "in.sam")
			os.WriteFile(sp, []byte(sf.Text), 0644)
			runB := func(args ...string) fw.BinResult {
				res.Evals++
				return fw.RunBin(c.Bin, append([]string{"sam", "toMultiAlign", "-s", sp}, args...), nil, nil, "", 40*time.Second)
			}
			for k := 0; k < 6; k++ {
				a := r.Range(0, L-1)
				b := r.Range(a+1, L)
				pad := r.Chance(0.5)
				var x, y []string
				shape := "both"
				switch k % 3 {
				case 0:
					x = []string{"--trimstart", fmt.Sprint(a), "--trimend", fmt.Sprint(b)}
					y = []string{"--start", fmt.Sprint(a + 1), "--end", fmt.Sprint(b)}
				case 1:
					x = []string{"--trimstart", fmt.Sprint(a)}
					y = []string{"--start", fmt.Sprint(a + 1)}
					shape = "start"
				default:
					x = []string{"--trimend", fmt.Sprint(b)}
					y = []string{"--end", fmt.Sprint(b)}
					shape = "end"
				}
				if r.Chance(0.5) {
					x = append(x, "--trim")
				}
				if pad {
					x = append(x, "--pad")
					y = append(y, "--pad")
				}
				rx, ry := runB(x...), runB(y...)
				res.Count("legacy_flag_relations", 1)
				res.Sig(fmt.Sprintf("legacy|%s|%v", shape, pad))
				if rx.TimedOut || ry.TimedOut {
					hung := rx
					if ry.TimedOut {
						hung = ry
					}
					binHang(&res, hung, "toMultiAlign window flags", nil, nil)
					break
				}
				if rx.Exit != 0 || ry.Exit != 0 || string(rx.Stdout) != string(ry.Stdout) {
					res.Fail("legacy-flags", fmt.Sprintf("%v (exit %d) and %v (exit %d) differ: %s", x, rx.Exit, y, ry.Exit, firstDiff(string(ry.Stdout), string(rx.Stdout))),
						map[string]string{"in.sam": sf.Text, "legacy.fasta": string(rx.Stdout), "new.fasta": string(ry.Stdout)}, x)
				}
			}
			// --trim alone changes nothing
			r0, r1 := runB(), runB("--trim")
			if r0.Exit != 0 || r1.Exit != 0 || string(r0.Stdout) != string(r1.Stdout) {
				res.Fail("legacy-trim-alone", "--trim alone changes the output", map[string]string{"in.sam": sf.Text}, nil)
			}
			// mixing both families is refused
			rm := runB("--trimstart", "0", "--end", fmt.Sprint(L))
			res.Count("mixed_family_refusals_checked", 1)
			if rm.Exit == 0 {
				res.Fail("legacy-mixed-accepted", "mixing --trimstart with --end was accepted (exit 0)", map[string]string{"in.sam": sf.Text}, nil)
			}
		case 2: // toPairAlign windows
			dir := filepath.Join(c.Tmp, fmt.Sprintf("c15p-%d", idx))
			full, err := run.ToPairAlignDir(sf.Text, refFasta, dir, -1, -1, -1, false, false, 1)
			res.Evals++
			if err != nil {
				res.Fail("error-on-valid-input", err.Error(), files, nil)
				return res
			}
			ws := c15Windows(r, L)
			if len(ws) > 40 {
				ws = ws[:40]
			}
			for _, w := range ws {
				omitIns := r.Chance(0.2)
				base := full
				if omitIns {
					base, _ = run.ToPairAlignDir(sf.Text, refFasta, dir, -1, -1, -1, false, true, 1)
					res.Evals++
				}
				got, err := run.ToPairAlignDir(sf.Text, refFasta, dir, -1, w[0], w[1], false, omitIns, pickThreads(r))
				res.Evals++
				argv := []string{"sam", "toPairAlign", fmt.Sprintf("--start=%d", w[0]), fmt.Sprintf("--end=%d", w[1]), fmt.Sprintf("--skip-insertions=%v", omitIns)}
				if err != nil {
					res.Fail("topa-window:error-on-valid-window", fmt.Sprintf("window %v: %v", w, err), files, argv)
					continue
				}
				s, e := w[0], w[1]
				if s == -1 {
					s = 1
				}
				if e == -1 {
					e = L
				}
				for name, text := range base {
					_, seqs, _ := parseFasta(text)
					_, gseqs, _ := parseFasta(got[name])
					res.Count("topa_window_relations", 1)
					res.Sig(fmt.Sprintf("topa|%s|%v", winShape(w, L), omitIns))
					if len(seqs) != 2 || len(gseqs) != 2 {
						res.Fail("topa-window", "pair file missing or malformed for "+name, files, argv)
						continue
					}
					er, eq := model.CutPair(seqs[0], seqs[1], s, e)
					if gseqs[0] != er || gseqs[1] != eq {
						res.Fail("topa-window", fmt.Sprintf("%s window %v: pair is not the untrimmed pair cut from reference base %d to %d: ref %s", name, w, s, e, firstDiff(er+"\n"+eq, gseqs[0]+"\n"+gseqs[1])),
							map[string]string{"in.sam": sf.Text, "ref.fasta": refFasta, "untrimmed_" + name: text, "observed_" + name: got[name]}, argv)
					}
				}
			}
		case 3: // wrap
			dir := filepath.Join(c.Tmp, fmt.Sprintf("c15w-%d", idx))
			// wrapping composes with the other layout options: with or without --pad, with or
			// without a window (both bounds, one bound, width 1)
			ws, we := -1, -1
			wpad := r.Chance(0.5)
			switch r.Intn(4) {
			case 0:
				ws = r.Range(1, L)
				we = r.Range(ws, L)
			case 1:
				ws = r.Range(1, L)
				we = ws
			case 2:
				if r.Chance(0.5) {
					ws = r.Range(1, L)
				} else {
					we = r.Range(1, L)
				}
			}
			base, err := run.ToMultiAlign(sf.Text, -1, ws, we, wpad, 1)
			pbase, perr := run.ToPairAlignDir(sf.Text, refFasta, dir, -1, ws, we, false, false, 1)
			res.Evals += 2
			if err != nil || perr != nil {
				res.Fail("error-on-valid-input", fmt.Sprint(err, perr), files, nil)
				return res
			}
			bi, bs := rowsOf(base)
			wlo, whi := 1, L
			if ws != -1 {
				wlo = ws
			}
			if we != -1 {
				whi = we
			}
			ww := whi - wlo + 1
			for _, w := range []int{1, 2, 3, 59, 60, 61, L - 1, L, L + 1, 1000000, ww - 1, ww, ww + 1, (ww + L) / 2, math.MaxInt32, math.MaxInt64 - 5, math.MaxInt64} {
				if w < 1 {
					continue
				}
				got, err := run.ToMultiAlign(sf.Text, w, ws, we, wpad, pickThreads(r))
				res.Evals++
				argv := []string{"sam", "toMultiAlign", "--wrap", fmt.Sprint(w), fmt.Sprintf("--start=%d", ws), fmt.Sprintf("--end=%d", we), fmt.Sprintf("--pad=%v", wpad)}
				if err != nil {
					res.Fail("wrap:error", err.Error(), files, argv)
					continue
				}
				gi, gs, ll := parseFasta(got)
				res.Count("wrap_relations", 1)
				wc := "other"
				switch {
				case w == L:
					wc = "L"
				case w == L-1:
					wc = "L-1"
				case w == L+1:
					wc = "L+1"
				case w < 4:
					wc = "tiny"
				case w > 1000:
					wc = "huge"
				}
				res.Sig("wrap|toma|" + wc)
				okk := strings.Join(gi, "\n") == strings.Join(bi, "\n") && strings.Join(gs, "\n") == strings.Join(bs, "\n")
				for _, lens := range ll {
					for k, n := range lens {
						if (k < len(lens)-1 && n != w) || n > w || n < 1 {
							okk = false
						}
					}
				}
				if strings.Contains(got, "\n\n") {
					okk = false
				}
				if !okk {
					res.Fail("wrap-toma", fmt.Sprintf("--wrap %d does not merely re-break the sequence lines", w), map[string]string{"in.sam": sf.Text, "unwrapped.fasta": base, "observed.fasta": got}, argv)
				}
				pgot, perr := run.ToPairAlignDir(sf.Text, refFasta, dir, w, ws, we, false, false, 1)
				res.Evals++
				if perr != nil {
					res.Fail("wrap:error", perr.Error(), files, argv)
					continue
				}
				for name, text := range pbase {
					i1, s1, _ := parseFasta(text)
					i2, s2, l2 := parseFasta(pgot[name])
					res.Sig("wrap|topa|" + wc)
					okk := strings.Join(i1, "\n") == strings.Join(i2, "\n") && strings.Join(s1, "\n") == strings.Join(s2, "\n") && !strings.Contains(pgot[name], "\n\n")
					for _, lens := range l2 {
						for k, n := range lens {
							if (k < len(lens)-1 && n != w) || n > w || n < 1 {
								okk = false
							}
						}
					}
					if !okk {
						res.Fail("wrap-topa", fmt.Sprintf("%s: --wrap %d does not merely re-break the sequence lines", name, w), map[string]string{"in.sam": sf.Text, "unwrapped_" + name: text, "observed_" + name: pgot[name]}, argv)
					}
				}
			}
		}
	case 4: // variants windows
		format := []string{"gb", "gff"}[r.Intn(2)]
		form := []string{"fasta", "sam"}[r.Intn(2)]
		opts := gen.AnnoOpts{MaxFeats: 4, AllowUnnamed: true, AllowSlip: false, SplitCodons: true, Rotate: true, NoStop: true}
		vp := gen.DefaultVarProfile()
		vp.PSub = 0.12
		vp.Recur = true
		ac := makeAnnoCase(r, c.Thorough(), format, form, vp, 5, opts)
		L := len(ac.an.Ref)
		appendSNP := r.Chance(0.5)
		full, err := ac.runVariants(-1, -1, false, 0, appendSNP, 1)
		fullAgg, err2 := ac.runVariants(-1, -1, true, 0, appendSNP, 1)
		res.Evals += 2
		files := ac.files()
		files["observed_unrestricted.csv"] = full
		if err != nil || err2 != nil {
			res.Fail("error-on-valid-input", fmt.Sprint(err, err2), files, ac.argv())
			return res
		}
		featByName := map[string]gen.Feature{}
		for _, f := range ac.an.Named() {
			featByName[f.Name] = f
		}
		// judge(record, s, e): keep, drop or unjudged
		judge := func(raw string, s, e int) int {
			m, ok := model.ParseMutation(raw)
			if !ok {
				return -1
			}
			p := m.Pos
			if m.Kind == "aa" {
				f, ok := featByName[m.Feature]
				if !ok {
					return -1
				}
				pos := f.CodingPositions()
				if m.K < 1 || 3*m.K > len(pos) {
					return -1
				}
				cod := pos[3*m.K-3 : 3*m.K]
				lo, hi := cod[0], cod[0]
				for _, x := range cod {
					if x < lo {
						lo = x
					}
					if x > hi {
						hi = x
					}
				}
				if hi-lo != 2 {
					return -1 // codon spans a join
				}
				if (s != -1 && s > lo && s <= hi) || (e != -1 && e >= lo && e < hi) {
					return -1 // straddles a bound
				}
				p = cod[0]
				if f.Strand < 0 {
					p = hi
				} else {
					p = lo
				}
			}
			if (s != -1 && p < s) || (e != -1 && p > e) {
				return 0
			}
			return 1
		}
		var ws [][2]int
		for i := 0; i < 8; i++ {
			s := r.Range(1, L)
			ws = append(ws, [2]int{s, r.Range(s, L)}, [2]int{r.Range(1, L), -1}, [2]int{-1, r.Range(1, L)})
		}
		for wi, w := range ws {
			agg := r.Chance(0.3)
			got, err := ac.runVariants(w[0], w[1], agg, 0, appendSNP, pickThreads(r))
			res.Evals++
			argv := ac.argv(fmt.Sprintf("--start=%d", w[0]), fmt.Sprintf("--end=%d", w[1]), fmt.Sprintf("--aggregate=%v", agg), fmt.Sprintf("--append-snps=%v", appendSNP))
			shape := winShape(w, L)
			class := "variants-window:" + map[bool]string{true: "one-bound", false: "two-bounds"}[w[0] == -1 || w[1] == -1]
			if err != nil {
				res.Fail(class+":error", err.Error(), files, argv)
				continue
			}
			if idx%30 == 4 && wi < 3 {
				ac.binVariants(c, &res, idx+wi, w[0], w[1], agg, 0, appendSNP, 2, got)
			}
			base := full
			if agg {
				base = fullAgg
			}
			bl := strings.Split(strings.TrimSuffix(base, "\n"), "\n")
			gl := strings.Split(strings.TrimSuffix(got, "\n"), "\n")
			res.Count("variants_window_relations", 1)
			res.Sig(fmt.Sprintf("var|%s|%s|%s|%v", format, form, shape, agg))
			f2 := ac.files()
			f2["observed_unrestricted.csv"] = base
			f2["observed_window.csv"] = got
			if agg {
				// lines "mutation,frequency"
				exp := map[string]bool{}
				unj := map[string]bool{}
				for _, l := range bl[1:] {
					i := strings.LastIndexByte(l, ',')
					switch judge(l[:i], w[0], w[1]) {
					case 1:
						exp[l] = true
					case -1:
						unj[l] = true
					}
				}
				gotm := map[string]bool{}
				for _, l := range gl[1:] {
					if !unj[l] {
						gotm[l] = true
					}
				}
				same := len(exp) == len(gotm)
				for k := range exp {
					if !gotm[k] {
						same = false
					}
				}
				if !same {
					res.Fail(class, fmt.Sprintf("--aggregate window %v keeps %d lines, filtering the unrestricted output by position keeps %d", w, len(gotm), len(exp)), f2, argv)
				}
				continue
			}
			if len(bl) != len(gl) {
				res.Fail(class, "row count changes under a window", f2, argv)
				continue
			}
			for i := 1; i < len(bl); i++ {
				bi, gi := strings.IndexByte(bl[i], ','), strings.IndexByte(gl[i], ',')
				if bl[i][:bi] != gl[i][:gi] {
					res.Fail(class, "row names change under a window", f2, argv)
					break
				}
				var exp, obs []string
				unj := map[string]bool{}
				if bl[i][bi+1:] != "" {
					for _, m := range strings.Split(bl[i][bi+1:], "|") {
						switch judge(m, w[0], w[1]) {
						case 1:
							exp = append(exp, m)
						case -1:
							unj[m] = true
						}
					}
				}
				if gl[i][gi+1:] != "" {
					for _, m := range strings.Split(gl[i][gi+1:], "|") {
						if !unj[m] {
							obs = append(obs, m)
						}
					}
				}
				sort.Strings(exp)
				sort.Strings(obs)
				if strings.Join(exp, "|") != strings.Join(obs, "|") {
					res.Fail(class, fmt.Sprintf("%s window %v: kept %v, but the mutations with %d <= p <= %d are %v", bl[i][:bi], w, obs, w[0], w[1], exp), f2, argv)
					break
				}
			}
		}
	case 5: // stdin vs file (binary)
		if c.Bin == "" {
			return res
		}
		format := []string{"gb", "gff"}[r.Intn(2)]
		opts := gen.AnnoOpts{MaxFeats: 3, AllowUnnamed: true, SplitCodons: true, Rotate: true, NoStop: true}
		ac := makeAnnoCase(r, c.Thorough(), format, "fasta", gen.DefaultVarProfile(), 6, opts)
		if ac.refID == "" {
			ac.refID = ac.an.RefName
		}
		// reference first
		recs := append([]gen.FastaRec{{ID: ac.an.RefName, Desc: ac.an.RefName, Seq: ac.msa.RefRow}}, ac.msa.Rows...)
		msaTxt := gen.RenderFasta(recs, gen.PickLineWidth(r, len(ac.msa.RefRow)))
		d := filepath.Join(c.Tmp, fmt.Sprintf("c15s-%d", idx))
		os.MkdirAll(d, 0755)
		defer os.RemoveAll(d)
		mp := filepath.Join(d, "msa.fasta")
		ap := filepath.Join(d, "anno."+format)
		os.WriteFile(mp, []byte(msaTxt), 0644)
		os.WriteFile(ap, []byte(ac.annoTxt), 0644)
		extra := []string{}
		if r.Chance(0.5) {
			extra = append(extra, "--append-snps")
		}
		if r.Chance(0.3) {
			extra = append(extra, "--aggregate")
		}
		th := fmt.Sprint(pickThreads(r))
		a1 := append([]string{"variants", "--msa", mp, "-r", ac.an.RefName, "-a", ap, "-t", th}, extra...)
		a2 := append([]string{"variants", "-r", ac.an.RefName, "-a", ap, "-t", th}, extra...)
		if idx%12 == 5 {
			a2 = append(a2, "--msa", "stdin") // the documented default spelled out
		}
		r1 := fw.RunBin(c.Bin, a1, nil, nil, "", 40*time.Second)
		r2 := fw.RunBin(c.Bin, a2, []byte(msaTxt), nil, "", 40*time.Second)
		res.Evals += 2
		res.Count("stdin_relations", 1)
		res.Sig(fmt.Sprintf("stdin|%s|%v", format, extra))
		if r1.TimedOut || r2.TimedOut {
			hung := r1
			if r2.TimedOut {
				hung = r2
			}
			binHang(&res, hung, "variants stdin/file", nil, a2)
		} else if r1.Exit != 0 || r2.Exit != 0 || string(r1.Stdout) != string(r2.Stdout) {
			res.Fail("stdin-vs-file", fmt.Sprintf("file run (exit %d) and stdin run (exit %d) differ: %s", r1.Exit, r2.Exit, firstDiff(string(r1.Stdout), string(r2.Stdout))),
				map[string]string{"msa.fasta": msaTxt, "annotation." + format: ac.annoTxt, "file.csv": string(r1.Stdout), "stdin.csv": string(r2.Stdout), "stderr_stdin.txt": string(r2.Stderr)}, a2)
		}
	}
	if idx < 6 {
		res.Sample = map[string]interface{}{"relation_kind": kind, "note": "see rule; kinds 0-5 = toma windows, legacy flags, topa windows, wrap, variants windows, stdin"}
	}
	return res
}
