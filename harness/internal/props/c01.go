package props

import (
	"fmt"
	"os"
	"path/filepath"
	"sort"
	"strings"
	"time"

	"verifharness/internal/fw"
	"verifharness/internal/gen"
	"verifharness/internal/model"
	"verifharness/internal/run"
)

func genomeLen(r *fw.Rng, thorough bool) int {
	x := r.Float()
	switch {
	case x < 0.006:
		// genome scale: coordinates beyond 2^14 and 2^15, flanks and records longer than any buffer
		if r.Chance(0.3) {
			// ... and beyond 2^16: SAM lines longer than 64 KiB, flanks longer than 2^15
			return r.Range(66000, 80000)
		}
		return r.Range(16500, 34000)
	case x < 0.70:
		return r.Range(1, 80)
	case x < 0.95 || !thorough:
		return r.Range(81, 400)
	default:
		return r.Range(401, 3000)
	}
}

// window picks (start,end) in one of four shapes; -1 = not given.
func window(r *fw.Rng, L int) (int, int, string) {
	switch r.Intn(5) {
	case 0, 1:
		return -1, -1, "none"
	case 2:
		return r.Range(1, L), -1, "start"
	case 3:
		return -1, r.Range(1, L), "end"
	default:
		s := r.Range(1, L)
		return s, r.Range(s, L), "both"
	}
}

func pickWrap(r *fw.Rng, L int) int {
	switch r.Intn(8) {
	case 0:
		return 1
	case 1:
		return 2
	case 2:
		return 7
	case 3:
		return 60
	case 4:
		return L
	case 5:
		return L + 5
	default:
		return -1
	}
}

func pickThreads(r *fw.Rng) int { return []int{1, 2, 3, 8, 16}[r.Intn(5)] }

func opSig(h map[byte]int) string {
	var ks []string
	for k := range h {
		ks = append(ks, string(k))
	}
	sort.Strings(ks)
	return strings.Join(ks, "")
}

func init() {
	fw.Register(&fw.Property{
		ID:         "C01",
		Level:      "exploration",
		Jitter:     true,
		RaceSample: true,
		Rule: "seeded SAM files (1-8 queries, 1-3 records per query cut from a true alignment with gaps/overlaps, optional conflicting record, all CIGAR operators, interleaved unmapped/secondary records) x pad x window x wrap x threads; " +
			"a case is non-trivial if it has an operator other than M, a multi-record query, or a window/pad/wrap option; distinct = distinct (operator set, max records per query, overlap kind, flank kinds, option tuple)",
		Assumptions: []string{
			"queries with no aligned base, alignments running past the reference end and a query name in non-adjacent blocks are not generated (unspecified by the property)",
			"the projection model is a direct transcription of the property statement (CIGAR walk, flatten, flank rule)",
		},
		MinNontriv: 50,
		Cases: func(tier string) int {
			if tier == "thorough" {
				return 600000
			}
			return 4000
		},
		Run: runC01,
	})
}

func runC01(c *fw.Ctx, idx int) fw.Result {
	var res fw.Result
	r := fw.NewRng(c.Seed, "C01", idx)
	L := genomeLen(r, c.Thorough())
	ref := gen.Genome(r, L)
	pr := gen.DefaultSamProfile()
	pr.AllowConflict = true
	if r.Chance(0.3) {
		pr.PIns, pr.PDel, pr.PSkip = 0.12, 0.12, 0.05
	}
	if L > 3000 {
		pr.MaxQueries = 3
		res.Count("genome_scale_cases", 1)
	}
	sf := gen.MakeSam(r, ref, pr)
	sf.Text = noFinalNL(r, sf.Text)
	pad := r.Chance(0.5)
	s, e, wk := window(r, L)
	if L >= 66000 && r.Chance(0.7) {
		// a window deep inside a long reference: both masked flanks are longer than 2^15
		pad = true
		s = r.Range(32770, L-32771)
		e = r.Range(s, L-32770)
		if e < s {
			e = s
		}
		wk = "both"
	}
	wrap := pickWrap(r, L)
	threads := pickThreads(r)

	var names, rows []string
	maxRecs := 0
	conflictCols := 0
	overlapKind := "none"
	flanks := map[string]bool{}
	for _, q := range sf.Queries {
		row, conf := model.MultiAlignRow(q, L, pad, s, e)
		names = append(names, q.Name)
		rows = append(rows, row)
		if len(q.Recs) > maxRecs {
			maxRecs = len(q.Recs)
		}
		conflictCols += conf
		if conf > 0 {
			overlapKind = "conflict"
		}
		full, _ := model.MultiAlignRow(q, L, false, -1, -1)
		if strings.HasPrefix(full, "-") {
			flanks["L"] = true
		}
		if strings.HasSuffix(full, "-") {
			flanks["R"] = true
		}
		if strings.Contains(strings.Trim(full, "-"), "N") {
			flanks["N"] = true
		}
	}
	expected := model.FastaText(names, rows, wrap)
	got, err := run.ToMultiAlign(sf.Text, wrap, s, e, pad, threads)
	res.Evals++
	res.Count("columns_compared", len(rows)*len(rows[0]))
	res.Count("conflict_columns", conflictCols)
	res.Count("queries", len(names))
	res.Count("unmapped_records", sf.Unmapped)
	res.Count("secondary_records", sf.Secondary)
	for k, v := range sf.OpHist {
		res.Count("op_"+string(k), v)
	}
	res.Count("opt_window_"+wk, 1)
	if pad {
		res.Count("opt_pad", 1)
	}
	if wrap > 0 {
		res.Count("opt_wrap", 1)
	}
	argv := []string{"sam", "toMultiAlign", fmt.Sprintf("--start=%d", s), fmt.Sprintf("--end=%d", e), fmt.Sprintf("--pad=%v", pad), fmt.Sprintf("--wrap=%d", wrap), fmt.Sprintf("-t=%d", threads)}
	files := map[string]string{"in.sam": sf.Text, "expected.fasta": expected, "observed.fasta": got}
	if err != nil {
		res.Fail("error-on-valid-input", "sam.ToMultiAlign returned an error on a valid SAM file: "+err.Error(), files, argv)
	} else if got != expected {
		res.Fail("projection-mismatch", "toMultiAlign output differs from the column-wise projection model: "+firstDiff(expected, got), files, argv)
	}
	ops := opSig(sf.OpHist)
	fl := ""
	for _, k := range []string{"L", "N", "R"} {
		if flanks[k] {
			fl += k
		}
	}
	if ops != "M" || maxRecs > 1 || wk != "none" || pad || wrap > 0 {
		res.Sig(fmt.Sprintf("%s|%d|%s|%s|%v%s%v", ops, maxRecs, overlapKind, fl, pad, wk, wrap > 0))
	}
	// binary boundary sample
	if idx%40 == 0 && c.Bin != "" && err == nil {
		dir := filepath.Join(c.Tmp, fmt.Sprintf("c01-%d", idx))
		os.MkdirAll(dir, 0755)
		os.WriteFile(filepath.Join(dir, "in.sam"), []byte(sf.Text), 0644)
		args := []string{"sam", "toMultiAlign", "-o", filepath.Join(dir, "out.fasta"), "-t", fmt.Sprint(threads)}
		var stdin []byte
		if idx%80 == 40 {
			stdin = []byte(sf.Text) // -s defaults to stdin
			if idx%160 == 120 {
				// a named non-regular file (as with a FIFO or process substitution)
				args = append(args, "-s", "/dev/stdin")
				res.Count("binary_runs_reading_a_non_regular_file", 1)
			}
		} else {
			args = append(args, "-s", filepath.Join(dir, "in.sam"))
		}
		if s != -1 {
			args = append(args, "--start", fmt.Sprint(s))
		}
		if e != -1 {
			args = append(args, "--end", fmt.Sprint(e))
		}
		args = boolFlag(args, "pad", pad, idx%80 == 0)
		if wrap > 0 {
			args = append(args, "--wrap", fmt.Sprint(wrap))
		}
		if idx%3 != 0 {
			// the output file already exists and holds a longer earlier result
			os.WriteFile(filepath.Join(dir, "out.fasta"), []byte(staleContent(len(expected)+300)), 0644)
		}
		var br fw.BinResult
		if stdin != nil && idx%160 == 40 {
			// `sam toMultiAlign < in.sam`: standard input is a regular file
			br = fw.RunBinStdinFile(c.Bin, args, filepath.Join(dir, "in.sam"), nil, "", 40*time.Second)
			res.Count("binary_runs_with_stdin_redirected_from_a_file", 1)
		} else {
			br = fw.RunBin(c.Bin, args, stdin, nil, "", 40*time.Second)
		}
		res.Evals++
		res.Count("binary_runs", 1)
		ob, _ := os.ReadFile(filepath.Join(dir, "out.fasta"))
		os.RemoveAll(dir)
		if br.TimedOut {
			binHang(&res, br, "toMultiAlign", files, args)
		} else if br.Exit != 0 || string(ob) != expected {
			files["observed.fasta"] = string(ob)
			files["stderr.txt"] = string(br.Stderr)
			res.Fail("projection-mismatch-binary", fmt.Sprintf("gofasta binary (exit %d) output differs from the model: %s", br.Exit, firstDiff(expected, string(ob))), files, args)
		}
	}
	// and through the sampler all commands share (re-spelled flags, oddly named input files,
	// TMPDIR elsewhere, restricted CPUs, slow pipe when writing to standard output)
	if idx%40 == 20 && err == nil {
		binSample(c, &res, idx, "toMultiAlign", map[string]string{"in.sam": sf.Text}, func(p func(string) string) []string {
			a := []string{"sam", "toMultiAlign", "-s", p("in.sam"), "-t", fmt.Sprint(threads)}
			if s != -1 {
				a = append(a, "--start", fmt.Sprint(s))
			}
			if e != -1 {
				a = append(a, "--end", fmt.Sprint(e))
			}
			if wrap > 0 {
				a = append(a, "--wrap", fmt.Sprint(wrap))
			}
			return boolFlag(a, "pad", pad, false)
		}, nil, []string{"", "-o"}[fw.Mix(uint64(idx)+8)%2], got)
	}
	if idx < 3 {
		res.Sample = map[string]interface{}{"sam": sf.Text, "argv": argv, "observed": got}
	}
	return res
}

// firstDiff describes where two texts first differ.
func firstDiff(exp, got string) string {
	el := strings.Split(exp, "\n")
	gl := strings.Split(got, "\n")
	for i := 0; i < len(el) || i < len(gl); i++ {
		var a, b string
		if i < len(el) {
			a = el[i]
		}
		if i < len(gl) {
			b = gl[i]
		}
		if a != b {
			col := 0
			for col < len(a) && col < len(b) && a[col] == b[col] {
				col++
			}
			return fmt.Sprintf("line %d col %d: expected %q observed %q", i+1, col+1, clip(a, col), clip(b, col))
		}
	}
	return "no difference"
}

func clip(s string, col int) string {
	a := col - 20
	if a < 0 {
		a = 0
	}
	b := col + 20
	if b > len(s) {
		b = len(s)
	}
	return s[a:b]
}
