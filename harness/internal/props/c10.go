package props

import (
	"fmt"
	"strconv"
	"strings"

	"verifharness/internal/fw"
	"verifharness/internal/gen"
	"verifharness/internal/model"
	"verifharness/internal/run"
)

func init() {
	fw.Register(&fw.Property{
		ID:         "C10",
		Level:      "exploration",
		Jitter:     true,
		RaceSample: true,
		Rule: "random references (90% A/C/G/T, 10% with IUPAC symbols) and alignments over the full alphabet (width 1-500, 1-40 rows) with ambiguity runs at either end, length-1 runs, runs separated by one base and all-ambiguous rows; model comparison plus reconstruction of every sequence from its observed row; " +
			"non-trivial = the alignment has a SNP and an ambiguity run; distinct = (width class, rows, run-shape flags seen: run at start, run at end, single-column run, runs separated by one base, all-ambiguous row)",
		Assumptions: []string{"with an ambiguous reference symbol 'equals the reference' is read as 'is one of the bases the reference symbol denotes'"},
		MinNontriv:  30,
		Cases: func(tier string) int {
			if tier == "thorough" {
				return 200000
			}
			return 2000
		},
		Run: runC10,
	})
}

func ambigRunSeq(r *fw.Rng, ref string) string {
	L := len(ref)
	b := []byte(ref)
	for i := range b {
		if !model.IsACGT(b[i]) {
			b[i] = gen.Bases[r.Intn(4)]
		}
	}
	// SNPs
	for i := range b {
		if r.Chance(0.06) {
			b[i] = gen.OtherBase(r, b[i])
		}
	}
	nruns := r.Intn(6)
	amb := "RYSWKMBDHVNN--?"
	for k := 0; k < nruns; k++ {
		var s, n int
		switch r.Intn(5) {
		case 0: // run at the start
			s, n = 0, r.Range(1, 1+L/4)
		case 1: // run at the end
			n = r.Range(1, 1+L/4)
			s = L - n
		case 2: // single column
			s, n = r.Intn(L), 1
		default:
			s = r.Intn(L)
			n = r.Range(1, 12)
		}
		for i := s; i < s+n && i < L; i++ {
			if i >= 0 {
				b[i] = amb[r.Intn(len(amb))]
			}
		}
		// a second run separated by exactly one base
		if r.Chance(0.3) && s+n+1 < L {
			b[s+n+1] = amb[r.Intn(len(amb))]
		}
	}
	if r.Chance(0.04) {
		for i := range b {
			b[i] = amb[r.Intn(len(amb))]
		}
	}
	for i := range b {
		if b[i] >= 'A' && b[i] <= 'Z' && r.Chance(0.1) {
			b[i] += 32
		}
	}
	return string(b)
}

func runC10(c *fw.Ctx, idx int) fw.Result {
	var res fw.Result
	r := fw.NewRng(c.Seed, "C10", idx)
	W := r.Range(1, 80)
	if r.Chance(0.3) {
		W = r.Range(81, 500)
	}
	var ref string
	if r.Chance(0.1) {
		ref = gen.RandSeq(r, W, gen.SeqProfile{PAmbig: 0.1, PGap: 0.02, PQ: 0.01})
	} else {
		ref = gen.Genome(r, W)
	}
	n := r.Range(1, 40)
	if idx%25 == 7 {
		n = r.Range(150, 400) // many rows: more than any fixed-size reorder window
		if W > 120 {
			W = r.Range(20, 120)
			ref = ref[:W]
		}
	}
	wide := idx%50 == 13
	if wide {
		// genome scale: a failed (all-N) sample, a low-coverage consensus with most columns masked in
		// long blocks and substitutions in the stretches between them, and ordinary genomes
		W = r.Range(12000, 33000)
		ref = gen.Genome(r, W)
		n = r.Range(3, 5)
		res.Count("genome_scale_cases", 1)
	}
	var recs []gen.FastaRec
	for i := 0; i < n; i++ {
		id, desc := gen.MakeHeader(r, i)
		recs = append(recs, gen.FastaRec{ID: id, Desc: desc, Seq: ambigRunSeq(r, ref)})
	}
	if wide {
		recs[0].Seq = strings.Repeat("N", W)
		b := []byte(ref)
		for p := 0; p < W; {
			run := r.Range(300, 2500)
			for i := p; i < p+run && i < W; i++ {
				b[i] = 'N'
			}
			p += run
			clear := r.Range(50, 600)
			for i := p; i < p+clear && i < W; i++ {
				if r.Chance(0.02) {
					b[i] = gen.OtherBase(r, ref[i])
				}
			}
			p += clear
		}
		recs[1].Seq = string(b)
	}
	if n >= 150 && r.Chance(0.5) {
		// a slow first record: every column a SNP or an ambiguity run boundary
		b := []byte(recs[0].Seq)
		for i := range b {
			if i%3 == 2 {
				b[i] = 'N'
			} else if model.IsACGT(ref[i]) {
				b[i] = gen.OtherBase(r, model.Upper(ref[i]))
			}
		}
		recs[0].Seq = string(b)
	}
	refText := noFinalNL(r, gen.RefFasta("root", ref, gen.PickLineWidth(r, W)))
	aln := noFinalNL(r, gen.RenderFasta(recs, gen.PickLineWidth(r, W)))
	var exp strings.Builder
	exp.WriteString("query,SNPs,ambiguities,SNPcount,ambcount\n")
	flags := map[string]bool{}
	totalSNP, totalRuns := 0, 0
	for _, rc := range recs {
		var snps, ambs []string
		ambCount := 0
		i := 0
		for i < W {
			q := model.Upper(rc.Seq[i])
			if model.IsACGT(q) {
				rs, _ := model.SetOf(ref[i], false)
				qs, _ := model.SetOf(q, false)
				if rs&qs == 0 {
					snps = append(snps, fmt.Sprintf("%c%d%c", model.Upper(ref[i]), i+1, q))
				}
				i++
				continue
			}
			j := i
			for j < W && !model.IsACGT(rc.Seq[j]) {
				j++
			}
			ambCount += j - i
			if j-i == 1 {
				ambs = append(ambs, strconv.Itoa(i+1))
				flags["single"] = true
			} else {
				ambs = append(ambs, fmt.Sprintf("%d-%d", i+1, j))
			}
			if i == 0 {
				flags["start"] = true
			}
			if j == W {
				flags["end"] = true
			}
			if i == 0 && j == W {
				flags["all"] = true
			}
			if j+1 < W && model.IsACGT(rc.Seq[j]) && !model.IsACGT(rc.Seq[j+1]) {
				flags["sep1"] = true
			}
			i = j
		}
		totalSNP += len(snps)
		totalRuns += len(ambs)
		exp.WriteString(fmt.Sprintf("%s,%s,%s,%d,%d\n", rc.ID, strings.Join(snps, "|"), strings.Join(ambs, "|"), len(snps), ambCount))
	}
	got, err := run.UpdownList(refText, aln)
	res.Evals++
	res.Count("rows", n)
	res.Count("columns", n*W)
	res.Count("snps", totalSNP)
	res.Count("ambiguity_runs", totalRuns)
	files := map[string]string{"ref.fasta": refText, "aln.fasta": aln, "expected.csv": exp.String(), "observed.csv": got}
	argv := []string{"updown", "list"}
	if err != nil {
		res.Fail("error-on-valid-input", "updown.List returned an error on valid input: "+err.Error(), files, argv)
		return res
	}
	if got != exp.String() {
		res.Fail("list-mismatch", "updown list output differs from the run/SNP model: "+firstDiff(exp.String(), got), files, argv)
	}
	if idx%25 == 4 {
		useStdin := idx%2 == 0
		binSample(c, &res, idx, "updown-list", map[string]string{"ref.fasta": refText, "aln.fasta": aln}, func(p func(string) string) []string {
			a := []string{"updown", "list", "-r", p("ref.fasta")}
			if !useStdin {
				a = append(a, "-q", p("aln.fasta"))
			}
			return a
		}, map[bool][]byte{true: []byte(aln), false: nil}[useStdin], map[bool]string{true: "", false: "-o"}[idx%3 == 0], got)
	}
	// reconstruction monitor: rebuild each sequence from the observed row
	lines := strings.Split(strings.TrimSuffix(got, "\n"), "\n")
	if len(lines) == n+1 {
		for k, rc := range recs {
			f := strings.Split(lines[k+1], ",")
			if len(f) != 5 {
				res.Fail("row-format", "row does not have 5 fields: "+lines[k+1], files, argv)
				continue
			}
			rb := []byte(strings.ToUpper(ref))
			ok := true
			nAmb := 0
			if f[2] != "" {
				for _, a := range strings.Split(f[2], "|") {
					ab := strings.Split(a, "-")
					s, e1 := strconv.Atoi(ab[0])
					e := s
					var e2 error
					if len(ab) == 2 {
						e, e2 = strconv.Atoi(ab[1])
					}
					if e1 != nil || e2 != nil || s < 1 || e > W || s > e {
						ok = false
						break
					}
					for p := s; p <= e; p++ {
						rb[p-1] = '#'
						nAmb++
					}
				}
			}
			nS := 0
			if f[1] != "" {
				for _, sn := range strings.Split(f[1], "|") {
					if len(sn) < 3 {
						ok = false
						break
					}
					p, e1 := strconv.Atoi(sn[1 : len(sn)-1])
					if e1 != nil || p < 1 || p > W {
						ok = false
						break
					}
					rb[p-1] = sn[len(sn)-1]
					nS++
				}
			}
			if !ok {
				res.Fail("row-format", "unparsable row: "+lines[k+1], files, argv)
				continue
			}
			for p := 0; p < W; p++ {
				q := model.Upper(rc.Seq[p])
				switch {
				case !model.IsACGT(q):
					if rb[p] != '#' {
						ok = false
					}
				case rb[p] == q:
				default:
					// unlisted column: must be compatible with the reference symbol
					rs, _ := model.SetOf(ref[p], false)
					qs, _ := model.SetOf(q, false)
					if rb[p] == '#' || rs&qs == 0 || rb[p] != model.Upper(ref[p]) {
						ok = false
					}
				}
			}
			if !ok {
				res.Fail("reconstruction", "sequence "+rc.ID+" cannot be reconstructed from its updown list row "+lines[k+1], files, argv)
			}
			if strconv.Itoa(nS) != f[3] || strconv.Itoa(nAmb) != f[4] {
				res.Fail("counts", "SNPcount/ambcount do not equal the listed SNPs / ambiguous columns: "+lines[k+1], files, argv)
			}
			res.Count("rows_reconstructed", 1)
		}
	}
	if totalSNP > 0 && totalRuns > 0 {
		fl := ""
		for _, k := range []string{"start", "end", "single", "sep1", "all"} {
			if flags[k] {
				fl += k[:2]
			}
		}
		wc := W / 40
		res.Sig(fmt.Sprintf("%d|%d|%s", wc, n, fl))
	}
	if idx < 2 {
		res.Sample = map[string]interface{}{"reference": refText, "alignment": aln, "observed": got}
	}
	return res
}
