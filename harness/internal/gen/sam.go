// Package gen holds the seeded input generators. Nothing here imports gofasta.
package gen

import (
	"fmt"
	"strconv"
	"strings"

	"verifharness/internal/fw"
)

const (
	Bases = "ACGT"
	// Ambig are the IUPAC ambiguity codes that SAM's SEQ alphabet can carry.
	Ambig = "RYSWKMBDHVN"
)

// Genome returns a random A/C/G/T string of length L.
func Genome(r *fw.Rng, L int) string {
	b := make([]byte, L)
	for i := range b {
		b[i] = Bases[r.Intn(4)]
	}
	return string(b)
}

// OtherBase returns an A/C/G/T base different from c.
func OtherBase(r *fw.Rng, c byte) byte {
	for {
		b := Bases[r.Intn(4)]
		if b != c {
			return b
		}
	}
}

// Col is one column of a true pairwise alignment of a query to the reference.
//
//	'M' aligned base Q at reference position Ref
//	'I' inserted base Q, placed before reference position Ref (after Ref bases)
//	'D' reference position Ref deleted in the query
//	'N' reference position Ref skipped (CIGAR N)
type Col struct {
	Kind byte
	Ref  int
	Q    byte
}

// Op is one CIGAR operation.
type Op struct {
	T byte
	N int
}

// Rec is one SAM record that contributes to its query (primary or supplementary).
type Rec struct {
	Name  string
	Flag  int
	Pos   int // 0-based
	Cigar []Op
	Seq   string // SEQ field (hard-clipped bases are not part of it)
}

func (rc Rec) CigarString() string {
	var sb strings.Builder
	for _, o := range rc.Cigar {
		sb.WriteString(strconv.Itoa(o.N))
		sb.WriteByte(o.T)
	}
	return sb.String()
}

// Query is the set of contributing records of one query name plus the true
// alignment they were cut from (Truth is nil for conflict-style queries).
type Query struct {
	Name     string
	Recs     []Rec
	Truth    []Col // full true alignment (columns); segments of it became Recs
	Segs     [][2]int
	Conflict bool // records overlap with different bases somewhere
}

// SamFile is a generated SAM input.
type SamFile struct {
	RefName string
	Ref     string
	Queries []Query // in order of first appearance
	Text    string
	// NonContrib counts interleaved unmapped / secondary records.
	Unmapped  int
	Secondary int
	OpHist    map[byte]int
}

// SamProfile tunes the edit process.
type SamProfile struct {
	PIns, PDel, PSkip float64
	PSub              float64
	PAmbig            float64 // probability that a substituted base is an IUPAC code
	MaxIndel          int
	MaxQueries        int
	MaxSegs           int
	AllowConflict     bool
	AllowEdgeIndel    bool // leading/trailing I, D, N in a record
	NoInsertions      bool
	PadOps            bool // allow P operations
	NoExtras          bool
}

func DefaultSamProfile() SamProfile {
	return SamProfile{PIns: 0.04, PDel: 0.04, PSkip: 0.015, PSub: 0.08, PAmbig: 0.25, MaxIndel: 9, MaxQueries: 8, MaxSegs: 3, AllowEdgeIndel: true, PadOps: true}
}

// TrueAlignment generates the column list of a query aligned to ref[a:b].
func TrueAlignment(r *fw.Rng, ref string, a, b int, pr SamProfile) []Col {
	var cols []Col
	nM := 0
	p := a
	for p < b {
		x := r.Float()
		if !pr.NoInsertions && x < pr.PIns {
			n := r.Range(1, pr.MaxIndel)
			masked := r.Chance(0.2)
			for i := 0; i < n; i++ {
				b := Bases[r.Intn(4)]
				if masked && r.Chance(0.5) {
					// an inserted base that was not called: still a base of the query
					b = "NNNRYKM"[r.Intn(7)]
				}
				cols = append(cols, Col{'I', p, b})
			}
			if r.Chance(0.2) {
				continue // lets a deletion or skip follow the insertion directly
			}
		} else if x < pr.PIns+pr.PDel {
			n := r.Range(1, pr.MaxIndel)
			for i := 0; i < n && p < b; i++ {
				cols = append(cols, Col{'D', p, 0})
				p++
			}
			continue
		} else if x < pr.PIns+pr.PDel+pr.PSkip {
			n := r.Range(1, pr.MaxIndel)
			for i := 0; i < n && p < b; i++ {
				cols = append(cols, Col{'N', p, 0})
				p++
			}
			continue
		}
		q := ref[p]
		if r.Chance(pr.PSub) {
			if r.Chance(pr.PAmbig) {
				q = Ambig[r.Intn(len(Ambig))]
			} else {
				q = OtherBase(r, ref[p])
			}
		}
		cols = append(cols, Col{'M', p, q})
		nM++
		p++
	}
	if !pr.NoInsertions && r.Chance(pr.PIns) && pr.AllowEdgeIndel {
		n := r.Range(1, pr.MaxIndel)
		for i := 0; i < n; i++ {
			cols = append(cols, Col{'I', b, Bases[r.Intn(4)]})
		}
	}
	if nM == 0 {
		// force one aligned base
		for i := range cols {
			if cols[i].Kind == 'D' || cols[i].Kind == 'N' {
				cols[i] = Col{'M', cols[i].Ref, ref[cols[i].Ref]}
				nM++
				break
			}
		}
	}
	return cols
}

// colsToRec turns a run of columns into a SAM record.
func colsToRec(r *fw.Rng, name string, flag int, cols []Col, ref string, pr SamProfile) Rec {
	pos := -1
	for _, c := range cols {
		if c.Kind != 'I' {
			pos = c.Ref
			break
		}
	}
	if pos < 0 {
		pos = cols[0].Ref
	}
	style := r.Intn(3) // 0: M, 1: =/X exact, 2: mixed
	var ops []Op
	var seq []byte
	push := func(t byte) {
		if len(ops) > 0 && ops[len(ops)-1].T == t {
			ops[len(ops)-1].N++
		} else {
			ops = append(ops, Op{t, 1})
		}
	}
	for _, c := range cols {
		switch c.Kind {
		case 'M':
			t := byte('M')
			if style == 1 || (style == 2 && r.Chance(0.5)) {
				if c.Q == ref[c.Ref] {
					t = '='
				} else {
					t = 'X'
				}
			}
			push(t)
			seq = append(seq, c.Q)
		case 'I':
			push('I')
			seq = append(seq, c.Q)
		case 'D':
			push('D')
		case 'N':
			push('N')
		}
	}
	// optionally split a run by a P operation (consumes nothing)
	if pr.PadOps && r.Chance(0.12) && len(ops) > 0 {
		i := r.Intn(len(ops))
		if ops[i].N >= 2 && ops[i].T != 'S' {
			k := r.Range(1, ops[i].N-1)
			nops := append([]Op{}, ops[:i]...)
			nops = append(nops, Op{ops[i].T, k}, Op{'P', r.Range(1, 5)}, Op{ops[i].T, ops[i].N - k})
			nops = append(nops, ops[i+1:]...)
			ops = nops
		}
	}
	// clipping
	switch r.Intn(4) {
	case 1: // soft clips
		if n := r.Intn(6); n > 0 {
			ops = append([]Op{{'S', n}}, ops...)
			seq = append([]byte(Genome(r, n)), seq...)
		}
		if n := r.Intn(6); n > 0 {
			ops = append(ops, Op{'S', n})
			seq = append(seq, []byte(Genome(r, n))...)
		}
	case 2: // hard clips
		if n := r.Intn(6); n > 0 {
			ops = append([]Op{{'H', n}}, ops...)
		}
		if n := r.Intn(6); n > 0 {
			ops = append(ops, Op{'H', n})
		}
	case 3: // hard + soft
		if n := r.Intn(4); n > 0 {
			ops = append([]Op{{'S', n}}, ops...)
			seq = append([]byte(Genome(r, n)), seq...)
		}
		if n := r.Intn(4); n > 0 {
			ops = append([]Op{{'H', n}}, ops...)
		}
		if n := r.Intn(4); n > 0 {
			ops = append(ops, Op{'S', n})
			seq = append(seq, []byte(Genome(r, n))...)
		}
		if n := r.Intn(4); n > 0 {
			ops = append(ops, Op{'H', n})
		}
	}
	return Rec{Name: name, Flag: flag, Pos: pos, Cigar: ops, Seq: string(seq)}
}

func hasM(cols []Col) bool {
	for _, c := range cols {
		if c.Kind == 'M' {
			return true
		}
	}
	return false
}

// cutSegments cuts a true alignment into k record segments [from,to) over the
// column list. Segments may leave gaps between them or overlap on columns that
// are all 'M' (agreeing overlap). Every segment holds at least one 'M'.
func cutSegments(r *fw.Rng, cols []Col, k int, allowEdge bool) [][2]int {
	n := len(cols)
	if k <= 1 || n < 4 {
		return trimSeg(cols, [][2]int{{0, n}}, allowEdge)
	}
	// choose k-1 cut points
	cuts := map[int]bool{}
	for i := 0; i < 4*k && len(cuts) < k-1; i++ {
		cuts[r.Range(1, n-1)] = true
	}
	var pts []int
	for c := range cuts {
		pts = append(pts, c)
	}
	sortInts(pts)
	var segs [][2]int
	prev := 0
	for _, c := range pts {
		segs = append(segs, [2]int{prev, c})
		prev = c
	}
	segs = append(segs, [2]int{prev, n})
	// gaps / overlaps at the junctions
	for i := 1; i < len(segs); i++ {
		switch r.Intn(3) {
		case 1: // gap: drop a few leading columns of segment i
			d := r.Range(1, 6)
			if segs[i][0]+d < segs[i][1]-1 {
				segs[i][0] += d
			}
		case 2: // overlap: extend segment i backwards over M-only columns
			d := r.Range(1, 8)
			s := segs[i][0]
			for d > 0 && s-1 > segs[i-1][0] && cols[s-1].Kind == 'M' && cols[s].Kind != 'I' {
				s--
				d--
			}
			// the column at the start of the overlap must not follow an insertion
			if s > 0 && cols[s-1].Kind == 'I' {
				s = segs[i][0]
			}
			segs[i][0] = s
		}
	}
	return trimSeg(cols, segs, allowEdge)
}

// trimSeg removes leading/trailing non-M columns from segments unless edge
// indels are allowed, and drops segments without any aligned base.
func trimSeg(cols []Col, segs [][2]int, allowEdge bool) [][2]int {
	var out [][2]int
	for _, s := range segs {
		a, b := s[0], s[1]
		// never start a segment in the middle of an insertion run: the rest of
		// the run is dropped, so that one insertion belongs to one record only
		for a > 0 && a < b && cols[a].Kind == 'I' && cols[a-1].Kind == 'I' {
			a++
		}
		if !allowEdge {
			for a < b && cols[a].Kind != 'M' {
				a++
			}
			for b > a && cols[b-1].Kind != 'M' {
				b--
			}
		}
		if a < b && hasM(cols[a:b]) {
			out = append(out, [2]int{a, b})
		}
	}
	return out
}

func sortInts(a []int) {
	for i := 1; i < len(a); i++ {
		for j := i; j > 0 && a[j] < a[j-1]; j-- {
			a[j], a[j-1] = a[j-1], a[j]
		}
	}
}

var nameChars = []string{"/", "|", ":", ".", "_", "-"}

// rarer but legal characters in sequence names (no whitespace, no comma: the CSV outputs do not quote)
var oddNameChars = []string{"=", ";", "+", "@", "#", "(", ")", "%", "~", "[", "]"}

// QueryName makes a unique, whitespace-free name.
func QueryName(r *fw.Rng, i int) string {
	base := []string{"hCoV-19", "sample", "Q", "England", "seq", "virus"}[r.Intn(6)]
	s := base
	for k := 0; k < r.Intn(3); k++ {
		s += nameChars[r.Intn(len(nameChars))] + strconv.Itoa(r.Intn(9999))
	}
	if r.Chance(0.08) {
		s += oddNameChars[r.Intn(len(oddNameChars))] + "x"
	}
	if r.Chance(0.04) {
		// percent-encoded names (as exported by some portals) are names like any other
		s += []string{"%2F", "%25", "%41", "%2C", "%7C"}[r.Intn(5)] + "y"
	}
	if r.Chance(0.03) {
		s = "#" + s
	}
	return fmt.Sprintf("%s%s%d", s, nameChars[3+r.Intn(3)], i)
}

// MakeQuery builds one query with 1..MaxSegs records.
func MakeQuery(r *fw.Rng, name string, ref string, pr SamProfile) Query {
	L := len(ref)
	a := 0
	b := L
	if L > 1 && r.Chance(0.7) {
		a = r.Intn(L)
		b = r.Range(a+1, L)
		if r.Chance(0.3) {
			a = 0
		}
		if r.Chance(0.3) {
			b = L
		}
	}
	cols := TrueAlignment(r, ref, a, b, pr)
	k := 1
	if pr.MaxSegs > 1 && r.Chance(0.5) {
		k = r.Range(2, pr.MaxSegs)
	}
	segs := cutSegments(r, cols, k, pr.AllowEdgeIndel)
	if len(segs) == 0 {
		// fall back to a single base match
		p := r.Intn(L)
		cols = []Col{{'M', p, ref[p]}}
		segs = [][2]int{{0, 1}}
	}
	q := Query{Name: name, Truth: cols, Segs: segs}
	order := r.Perm(len(segs))
	if r.Chance(0.6) {
		for i := range order {
			order[i] = i
		}
	}
	for n, si := range order {
		s := segs[si]
		flag := 0
		if n > 0 {
			flag = 0x800
		}
		if r.Chance(0.3) {
			flag |= 0x10
		}
		q.Recs = append(q.Recs, colsToRec(r, name, flag, cols[s[0]:s[1]], ref, pr))
	}
	if pr.AllowConflict && r.Chance(0.35) {
		// an extra supplementary record over part of the covered region whose
		// bases may disagree with the others
		a2 := r.Intn(L)
		b2 := r.Range(a2+1, min(L, a2+30))
		pr2 := pr
		pr2.PSub = 0.5
		pr2.PAmbig = 0.1
		cols2 := TrueAlignment(r, ref, a2, b2, pr2)
		s2 := trimSeg(cols2, [][2]int{{0, len(cols2)}}, pr.AllowEdgeIndel)
		if len(s2) == 1 {
			q.Recs = append(q.Recs, colsToRec(r, name, 0x800, cols2[s2[0][0]:s2[0][1]], ref, pr))
			q.Conflict = true
			q.Truth = nil
		}
	}
	return q
}

func min(a, b int) int {
	if a < b {
		return a
	}
	return b
}

// recLine renders one alignment line. The fields gofasta does not use (MAPQ, mate fields, QUAL,
// optional tags) and the FLAG bits other than 0x4/0x100 vary: they must not matter.
func recLine(r *fw.Rng, rc Rec, refName string) string {
	if !r.Chance(0.4) {
		return fmt.Sprintf("%s\t%d\t%s\t%d\t60\t%s\t*\t0\t0\t%s\t*", rc.Name, rc.Flag, refName, rc.Pos+1, rc.CigarString(), rc.Seq)
	}
	flag := rc.Flag | []int{0, 0x400, 0x200, 0x1 | 0x2 | 0x40, 0x1 | 0x80 | 0x20}[r.Intn(5)]
	mapq := []int{0, 1, 30, 60, 255}[r.Intn(5)]
	mate := "*\t0\t0"
	if flag&0x1 != 0 {
		mate = fmt.Sprintf("=\t%d\t%d", r.Range(1, rc.Pos+50), r.Range(-500, 500))
	}
	qual := "*"
	if r.Chance(0.5) && len(rc.Seq) > 0 {
		qual = strings.Repeat(string("I#5~!"[r.Intn(5)]), len(rc.Seq))
	}
	line := fmt.Sprintf("%s\t%d\t%s\t%d\t%d\t%s\t%s\t%s\t%s", rc.Name, flag, refName, rc.Pos+1, mapq, rc.CigarString(), mate, rc.Seq, qual)
	for _, tag := range []string{"NM:i:3", "AS:i:77", "MD:Z:10A5^AC6", "SA:Z:" + refName + ",10,+,5S10M,60,0;", "RG:Z:grp1", "XS:f:0.5"} {
		if r.Chance(0.25) {
			line += "\t" + tag
		}
	}
	return line
}

// MakeSam generates a SAM file over ref.
func MakeSam(r *fw.Rng, ref string, pr SamProfile) SamFile {
	sf := SamFile{RefName: []string{"ref", "MN908947.3", "NC_045512.2", "chr|1"}[r.Intn(4)], Ref: ref, OpHist: map[byte]int{}}
	nq := r.Range(1, pr.MaxQueries)
	var sb strings.Builder
	if r.Chance(0.7) {
		sb.WriteString("@HD\tVN:1.6\tSO:unsorted\n")
	}
	sb.WriteString(fmt.Sprintf("@SQ\tSN:%s\tLN:%d\n", sf.RefName, len(ref)))
	if r.Chance(0.5) {
		sb.WriteString("@PG\tID:minimap2\tPN:minimap2\tVN:2.24\n")
	}
	extra := func(nearName string) {
		if pr.NoExtras {
			return
		}
		for r.Chance(0.25) {
			L := len(ref)
			if r.Chance(0.5) {
				// unmapped
				name := nearName
				if r.Chance(0.5) {
					name = fmt.Sprintf("unmapped_%d", sf.Unmapped)
				}
				seq := Genome(r, r.Range(1, 20))
				// the unmapped bit together with other bits that do not change its meaning
				uflag := 4 | []int{0, 0, 0x200, 0x400, 0x1 | 0x8 | 0x40, 0x10}[r.Intn(6)]
				if r.Chance(0.5) {
					sb.WriteString(fmt.Sprintf("%s\t%d\t*\t0\t0\t*\t*\t0\t0\t%s\t*\n", name, uflag, seq))
				} else {
					// unmapped flag but with placement fields filled in
					p := r.Intn(L)
					n := min(len(seq), L-p)
					sb.WriteString(fmt.Sprintf("%s\t%d\t%s\t%d\t0\t%dM\t*\t0\t0\t%s\t*\n", name, uflag, sf.RefName, p+1, n, seq[:n]))
				}
				sf.Unmapped++
			} else {
				// secondary alignment with arbitrary (valid) content
				name := nearName
				if r.Chance(0.3) {
					name = fmt.Sprintf("secondary_%d", sf.Secondary)
				}
				p := r.Intn(L)
				n := r.Range(1, min(25, L-p))
				// secondary, possibly also reverse / QC-fail / duplicate / supplementary: still secondary
				sflag := 256 | []int{0, 0, 0x10, 0x200, 0x400, 0x800, 0x10 | 0x200, 0x400 | 0x800}[r.Intn(8)]
				sb.WriteString(fmt.Sprintf("%s\t%d\t%s\t%d\t0\t%dM\t*\t0\t0\t%s\t*\n", name, sflag, sf.RefName, p+1, n, Genome(r, n)))
				sf.Secondary++
			}
		}
	}
	for i := 0; i < nq; i++ {
		name := QueryName(r, i)
		q := MakeQuery(r, name, ref, pr)
		extra(name)
		for j, rc := range q.Recs {
			sb.WriteString(recLine(r, rc, sf.RefName))
			sb.WriteByte('\n')
			for _, o := range rc.Cigar {
				sf.OpHist[o.T]++
			}
			if j < len(q.Recs)-1 {
				extra(name)
			}
		}
		sf.Queries = append(sf.Queries, q)
	}
	extra("trailing")
	sf.Text = sb.String()
	return sf
}

// RefFasta renders the reference as a FASTA file.
func RefFasta(name, seq string, wrap int) string {
	return ">" + name + "\n" + WrapSeq(seq, wrap)
}

// WrapSeq breaks s into lines of w characters (w<=0: one line). Always ends
// with a newline.
func WrapSeq(s string, w int) string {
	if w <= 0 || len(s) == 0 {
		return s + "\n"
	}
	var sb strings.Builder
	for i := 0; i < len(s); i += w {
		e := i + w
		if e > len(s) {
			e = len(s)
		}
		sb.WriteString(s[i:e])
		sb.WriteByte('\n')
	}
	return sb.String()
}
