package gen

import (
	"fmt"
	"strings"

	"verifharness/internal/fw"
)

// SeqProfile describes a random symbol distribution.
type SeqProfile struct {
	PAmbig float64 // IUPAC ambiguity codes (incl. N)
	PGap   float64 // '-'
	PQ     float64 // '?'
	PLower float64 // per-symbol lower-casing
}

const ambigAll = "RYSWKMBDHVN"

// RandSeq draws L symbols.
func RandSeq(r *fw.Rng, L int, p SeqProfile) string {
	b := make([]byte, L)
	for i := range b {
		x := r.Float()
		var c byte
		switch {
		case x < p.PAmbig:
			c = ambigAll[r.Intn(len(ambigAll))]
		case x < p.PAmbig+p.PGap:
			c = '-'
		case x < p.PAmbig+p.PGap+p.PQ:
			c = '?'
		default:
			c = Bases[r.Intn(4)]
		}
		if c >= 'A' && c <= 'Z' && r.Chance(p.PLower) {
			c += 32
		}
		b[i] = c
	}
	return string(b)
}

// Mutate derives a sequence from base with substitutions drawn from p.
func Mutate(r *fw.Rng, base string, rate float64, p SeqProfile) string {
	b := []byte(base)
	for i := range b {
		if r.Chance(rate) {
			b[i] = RandSeq(r, 1, p)[0]
		}
	}
	return string(b)
}

// FastaRec is a generated FASTA record.
type FastaRec struct {
	ID   string
	Desc string // full header line without '>'
	Seq  string
}

// MakeHeader returns (id, header) with an optional description.
func MakeHeader(r *fw.Rng, i int) (string, string) {
	id := QueryName(r, i)
	switch r.Intn(4) {
	case 0:
		return id, id + " some description " + fmt.Sprint(i)
	case 1:
		return id, id + "\tTabbed desc"
	}
	return id, id
}

// RenderFasta renders records with a line width (<=0 = single line).
func RenderFasta(recs []FastaRec, wrap int) string {
	var sb strings.Builder
	for _, rc := range recs {
		sb.WriteString(">" + rc.Desc + "\n")
		sb.WriteString(WrapSeq(rc.Seq, wrap))
	}
	return sb.String()
}

func PickLineWidth(r *fw.Rng, L int) int {
	switch r.Intn(6) {
	case 0:
		return 60
	case 1:
		return r.Range(1, 10)
	case 2:
		return L
	case 3:
		return r.Range(1, L+3)
	}
	return 0
}
