package gen

import (
	"fmt"
	"strings"

	"verifharness/internal/fw"
)

// SeqProfile describes a random symbol distribution.
type SeqProfile struct {
	PAmbig float64 // IUPAC ambiguity codes (incl. N)
	PGap   float64 // '-'
	PQ     float64 // '?'
	PLower float64 // per-symbol lower-casing
}

const ambigAll = "RYSWKMBDHVN"

// RandSeq draws L symbols.
func RandSeq(r *fw.Rng, L int, p SeqProfile) string {
	b := make([]byte, L)
	for i := range b {
		x := r.Float()
		var c byte
		switch {
		case x < p.PAmbig:
			c = ambigAll[r.Intn(len(ambigAll))]
		case x < p.PAmbig+p.PGap:
			c = '-'
		case x < p.PAmbig+p.PGap+p.PQ:
			c = '?'
		default:
			c = Bases[r.Intn(4)]
		}
		if c >= 'A' && c <= 'Z' && r.Chance(p.PLower) {
			c += 32
		}
		b[i] = c
	}
	return string(b)
}

// Mutate derives a sequence from base with substitutions drawn from p.
func Mutate(r *fw.Rng, base string, rate float64, p SeqProfile) string {
	b := []byte(base)
	for i := range b {
		if r.Chance(rate) {
			b[i] = RandSeq(r, 1, p)[0]
		}
	}
	return string(b)
}

// FastaRec is a generated FASTA record.
type FastaRec struct {
	ID   string
	Desc string // full header line without '>'
	Seq  string
}

// MakeHeader returns (id, header) with an optional description.
func MakeHeader(r *fw.Rng, i int) (string, string) {
	id := QueryName(r, i)
	switch r.Intn(4) {
	case 0:
		return id, id + " some description " + fmt.Sprint(i)
	case 1:
		return id, id + "\tTabbed desc"
	}
	return id, id
}

// RenderFasta renders records with a line width (<=0 = single line).
func RenderFasta(recs []FastaRec, wrap int) string {
	var sb strings.Builder
	for _, rc := range recs {
		sb.WriteString(">" + rc.Desc + "\n")
		sb.WriteString(WrapSeq(rc.Seq, wrap))
	}
	return sb.String()
}

// Describe gives some of the records a free-text description after the ID, separated by a
// space, a tab or several blanks: the sequence ID is the first whitespace-delimited token.
func Describe(r *fw.Rng, recs []FastaRec) {
	for i := range recs {
		if recs[i].Desc != recs[i].ID || !r.Chance(0.3) {
			continue
		}
		sep := []string{" ", "\t", "  ", " \t"}[r.Intn(4)]
		recs[i].Desc = recs[i].ID + sep + []string{"England 2020-03-04", "hCoV-19/sample|EPI_ISL_1|2021", "x", "a\tb c"}[r.Intn(4)]
	}
}

func PickLineWidth(r *fw.Rng, L int) int {
	switch r.Intn(6) {
	case 0:
		return 60
	case 1:
		return r.Range(1, 10)
	case 2:
		return L
	case 3:
		return r.Range(1, L+3)
	}
	return 0
}

// VarMSA is a reference row (gapped where some query has an insertion) and
// query rows of the same width.
type VarMSA struct {
	RefRow string
	Rows   []FastaRec
}

// VarProfile tunes MakeVariantMSA.
type VarProfile struct {
	PSub, PAmbig, PDel float64
	MaxInsSites        int
	MaxDelLen          int
	PQ                 float64 // '?' symbols
	Recur              bool    // queries share mutations (for aggregate frequencies)
}

func DefaultVarProfile() VarProfile {
	return VarProfile{PSub: 0.08, PAmbig: 0.3, PDel: 0.02, MaxInsSites: 3, MaxDelLen: 12, PQ: 0.003}
}

// MakeVariantMSA builds nq query rows aligned to ref.
func MakeVariantMSA(r *fw.Rng, ref string, nq int, p VarProfile) VarMSA {
	L := len(ref)
	// insertion sites: after[k] reference bases, width w
	type site struct{ after, w int }
	var sites []site
	ns := r.Intn(p.MaxInsSites + 1)
	used := map[int]bool{}
	for i := 0; i < ns; i++ {
		a := r.Range(0, L)
		switch r.Intn(6) {
		case 0:
			a = 0
		case 1:
			a = L
		}
		if used[a] {
			continue
		}
		used[a] = true
		sites = append(sites, site{a, r.Range(1, 6)})
	}
	for i := 1; i < len(sites); i++ {
		for j := i; j > 0 && sites[j].after < sites[j-1].after; j-- {
			sites[j], sites[j-1] = sites[j-1], sites[j]
		}
	}
	// shared pool of edits for recurrence
	type edit struct {
		pos int
		b   byte
	}
	var pool []edit
	for i := 0; i < 12; i++ {
		pp := r.Intn(L)
		pool = append(pool, edit{pp, OtherBase(r, ref[pp])})
	}
	build := func(base []byte, insFill map[int]string) string {
		var sb strings.Builder
		si := 0
		for pos := 0; pos <= L; pos++ {
			for si < len(sites) && sites[si].after == pos {
				f, ok := insFill[si]
				if !ok {
					f = strings.Repeat("-", sites[si].w)
				}
				sb.WriteString(f)
				si++
			}
			if pos < L {
				sb.WriteByte(base[pos])
			}
		}
		return sb.String()
	}
	var out VarMSA
	out.RefRow = build([]byte(ref), nil)
	for qi := 0; qi < nq; qi++ {
		b := []byte(ref)
		if p.Recur {
			for _, e := range pool {
				if r.Chance(0.4) {
					b[e.pos] = e.b
				}
			}
		}
		for i := range b {
			if r.Chance(p.PSub) {
				switch {
				case r.Chance(p.PAmbig):
					b[i] = ambigAll[r.Intn(len(ambigAll))]
				case r.Chance(p.PQ * 10):
					b[i] = '?'
				default:
					b[i] = OtherBase(r, b[i])
				}
			}
		}
		// deletions
		nd := 0
		for i := 0; i < L; i++ {
			if r.Chance(p.PDel) && nd < 6 {
				n := r.Range(1, p.MaxDelLen)
				if r.Chance(0.3) {
					n = r.Range(1, 3)
				}
				for k := i; k < i+n && k < L; k++ {
					b[k] = '-'
				}
				i += n
				nd++
			}
		}
		if r.Chance(0.1) {
			for k := 0; k < r.Range(1, 5) && k < L; k++ {
				b[k] = '-'
			}
		}
		if r.Chance(0.1) {
			for k := L - 1; k >= L-r.Range(1, 5) && k >= 0; k-- {
				b[k] = '-'
			}
		}
		fill := map[int]string{}
		for si, s := range sites {
			if r.Chance(0.45) {
				f := []byte(Genome(r, s.w))
				if r.Chance(0.3) {
					// inserted bases that were not called (a masked or low-coverage insertion): they
					// are bases of the query all the same
					for k := range f {
						if r.Chance(0.4) {
							f[k] = "NNN?RYKMn"[r.Intn(9)]
						}
					}
				}
				// partial insertions: some columns stay gaps
				if r.Chance(0.4) {
					for k := range f {
						if r.Chance(0.4) {
							f[k] = '-'
						}
					}
				}
				fill[si] = string(f)
			}
		}
		row := build(b, fill)
		if r.Chance(0.15) {
			rb := []byte(row)
			for i := range rb {
				if rb[i] >= 'A' && rb[i] <= 'Z' && r.Chance(0.3) {
					rb[i] += 32
				}
			}
			row = string(rb)
		}
		id, desc := MakeHeader(r, qi)
		out.Rows = append(out.Rows, FastaRec{ID: id, Desc: desc, Seq: row})
	}
	return out
}
