package gen

import (
	"fmt"
	"strings"

	"verifharness/internal/fw"
)

// Feature is one coding feature of an abstract annotation.
type Feature struct {
	ID         string
	Name       string   // "" = unnamed (GFF3 only)
	Strand     int      // +1 / -1
	Segs       [][2]int // 1-based inclusive, ascending genomic order
	CodonStart int      // 1..3 (1 for mature children)
	Kind       string   // "CDS" or "mature"
	Parent     string
	LocForm    int  // GenBank rendering variant for reverse multi-segment features
	NoID       bool // GFF3 rendering: the row carries no ID attribute (only Parent and Name)
}

// CodingPositions lists the 1-based coding positions in reading order,
// codon_start already applied.
func (f Feature) CodingPositions() []int {
	var pos []int
	if f.Strand > 0 {
		for _, s := range f.Segs {
			for p := s[0]; p <= s[1]; p++ {
				pos = append(pos, p)
			}
		}
	} else {
		for i := len(f.Segs) - 1; i >= 0; i-- {
			for p := f.Segs[i][1]; p >= f.Segs[i][0]; p-- {
				pos = append(pos, p)
			}
		}
	}
	return pos[f.CodonStart-1:]
}

// Annotation is an abstract annotation of a reference genome.
type Annotation struct {
	RefName string
	Ref     string
	Feats   []Feature
}

func compBase(b byte) byte {
	switch b {
	case 'A':
		return 'T'
	case 'T':
		return 'A'
	case 'C':
		return 'G'
	case 'G':
		return 'C'
	}
	return b
}

var stops = []string{"TAA", "TAG", "TGA"}

// AnnoOpts selects what the generator may produce.
type AnnoOpts struct {
	MaxFeats     int
	AllowUnnamed bool // unnamed CDS (GFF3 only), with or without named mature children
	AllowSlip    bool // join segments that repeat one position (ribosomal slippage)
	SplitCodons  bool // allow segment boundaries inside codons
	Isoforms     bool // allow a second CDS with the same name, outer bounds and strand but another exon junction
	SamConflicts bool // (SAM form) allow an extra supplementary record whose bases may disagree with the others
	NoStop       bool // allow CDS features that do not end in a stop codon (partial CDS, polyprotein fragments)
	AllNQuery    bool // (used by the case builder) one SAM query may have every base replaced by N
	NoFeatures   bool // now and then an annotation without any coding feature
	DupOverlap   bool // a shorter second feature with the name, start and frame of an existing one (needs NoStop)
	QuoteNames   bool // (used by the case builder) a GFF3 feature name may be written with double quotes around it
	DupNames     bool // allow two single-row CDS that share a gene name, and top-level GFF3 rows without an ID
	ExactQueries int  // if > 0, the number of query sequences (FASTA form)
	AmbigRef     bool // allow IUPAC codes inside coding regions of the reference where every expansion keeps the protein
	CRLF         bool // allow annotation files with CRLF line ends
	GenomeLen    int  // if > 0, the genome length to use (callers that want a long genome)
	Rotate       bool // allow joins whose segments are not written in ascending order (a feature spanning the origin of a circular genome)
}

// MakeAnnotation builds 1..MaxFeats coding features over a genome of length L
// and returns the genome with stop codons planted at every feature's end.
func MakeAnnotation(r *fw.Rng, L int, o AnnoOpts) Annotation {
	ref := []byte(Genome(r, L))
	an := Annotation{RefName: []string{"ref", "MN908947.3", "NC_045512.2"}[r.Intn(3)]}
	nf := r.Range(1, o.MaxFeats)
	var feats []Feature
	for i := 0; i < nf; i++ {
		f, ok := makeFeature(r, L, i, o)
		if !ok {
			continue
		}
		if o.AllowUnnamed && r.Chance(0.3) {
			f.Name = ""
		}
		feats = append(feats, f)
	}
	// plant stop codons (later features may overwrite earlier ones; verified below)
	noStop := map[string]bool{}
	for _, f := range feats {
		if o.NoStop && r.Chance(0.15) {
			noStop[f.ID] = true
			continue
		}
		pos := f.CodingPositions()
		st := stops[r.Intn(3)]
		for k := 0; k < 3; k++ {
			p := pos[len(pos)-3+k]
			b := st[k]
			if f.Strand < 0 {
				b = compBase(b)
			}
			ref[p-1] = b
		}
	}
	isStop := func(f Feature) bool {
		pos := f.CodingPositions()
		var c [3]byte
		for k := 0; k < 3; k++ {
			c[k] = ref[pos[len(pos)-3+k]-1]
			if f.Strand < 0 {
				c[k] = compBase(c[k])
			}
		}
		s := string(c[:])
		return s == "TAA" || s == "TAG" || s == "TGA"
	}
	for _, f := range feats {
		if !isStop(f) && !noStop[f.ID] {
			continue
		}
		an.Feats = append(an.Feats, f)
		if o.Isoforms && f.Name != "" && len(f.Segs) >= 2 && r.Chance(0.5) {
			// an isoform: same name, first base, last base and strand; the first junction
			// moved by one codon (lengths change by +3/-3, so frame and stop codon are kept)
			iso := f
			iso.ID = f.ID + "-iso"
			iso.Segs = append([][2]int{}, f.Segs...)
			d := 3
			if r.Chance(0.5) {
				d = -3
			}
			a, b := iso.Segs[0], iso.Segs[1]
			a[1] += d
			b[0] += d
			firstLen := a[1] - a[0] + 1
			if f.Strand < 0 {
				firstLen = iso.Segs[len(iso.Segs)-1][1] - iso.Segs[len(iso.Segs)-1][0] + 1
				if len(iso.Segs) == 2 {
					firstLen = b[1] - b[0] + 1
				}
			}
			if a[1] >= a[0] && b[0] <= b[1] && a[1] < b[0]+1 && firstLen >= f.CodonStart && a[1] <= L && b[0] >= 1 {
				iso.Segs[0], iso.Segs[1] = a, b
				if isStop(iso) && len(iso.CodingPositions())%3 == 0 {
					an.Feats = append(an.Feats, iso)
				}
			}
		}
		if f.Name == "" && r.Chance(0.7) {
			an.Feats = append(an.Feats, makeChildren(r, f)...)
		}
	}
	if o.DupNames {
		// ID is optional in GFF3 for a feature nothing refers to; two CDS may carry the same gene name
		var single []int
		for i, f := range an.Feats {
			if f.Kind == "CDS" && f.Name != "" && len(f.Segs) == 1 && !strings.HasSuffix(f.ID, "-iso") {
				single = append(single, i)
			}
		}
		for _, i := range single {
			if r.Chance(0.3) {
				an.Feats[i].NoID = true
			}
		}
		if len(single) >= 2 && r.Chance(0.3) {
			a, b := single[r.Intn(len(single))], single[r.Intn(len(single))]
			if a != b {
				an.Feats[b].Name = an.Feats[a].Name
			}
		}
	}
	if o.DupOverlap && r.Chance(0.35) {
		// a second, shorter product of the same gene: same name, start and frame, ending earlier (as
		// pp1a and pp1ab are both annotated /gene="ORF1ab"). Every change in the shared codons is the
		// same change for both.
		var cand []int
		for i, f := range an.Feats {
			if f.Kind == "CDS" && f.Name != "" && len(f.Segs) == 1 && f.CodonStart == 1 && f.Segs[0][1]-f.Segs[0][0]+1 >= 12 && !strings.HasSuffix(f.ID, "-iso") {
				cand = append(cand, i)
			}
		}
		if len(cand) > 0 {
			a := an.Feats[cand[r.Intn(len(cand))]]
			b := a
			b.ID = a.ID + "-short"
			b.Segs = [][2]int{{a.Segs[0][0], a.Segs[0][1]}}
			codons := (a.Segs[0][1] - a.Segs[0][0] + 1) / 3
			cut := 3 * r.Range(1, codons-2)
			if a.Strand > 0 {
				b.Segs[0][1] -= cut
			} else {
				b.Segs[0][0] += cut
			}
			an.Feats = append(an.Feats, b)
		}
	}
	if len(an.Feats) == 0 {
		// guaranteed fallback: one forward feature over codons 1..n
		n := (L / 3)
		if n > 6 {
			n = 6
		}
		if n >= 2 {
			f := Feature{ID: "cds-fb", Name: "fallback", Strand: 1, Segs: [][2]int{{1, 3 * n}}, CodonStart: 1, Kind: "CDS"}
			copy(ref[3*n-3:3*n], "TAA")
			an.Feats = append(an.Feats, f)
		}
	}
	if o.NoFeatures && r.Chance(0.04) {
		// a record that annotates no coding feature at all (a non-coding amplicon, a file with only
		// source / UTR / gene rows): every position is non-coding
		an.Feats = nil
	}
	an.Ref = string(ref)
	return an
}

func makeFeature(r *fw.Rng, L, i int, o AnnoOpts) (Feature, bool) {
	f := Feature{ID: fmt.Sprintf("cds-%d", i), Name: fmt.Sprintf("%s%d", []string{"orf", "gene", "S", "N", "nsp", "nsp7+", "ORF1a.b-", "E_"}[r.Intn(8)], i), Kind: "CDS", Strand: 1, CodonStart: r.Range(1, 3), LocForm: r.Intn(2)}
	if r.Chance(0.6) {
		f.CodonStart = 1
	}
	if r.Chance(0.4) {
		f.Strand = -1
	}
	maxCodons := (L - 4) / 3
	if maxCodons < 2 {
		return f, false
	}
	if maxCodons > 40 {
		maxCodons = 40
	}
	ncod := r.Range(2, maxCodons)
	total := 3*ncod + f.CodonStart - 1
	nseg := 1
	if r.Chance(0.45) {
		nseg = r.Range(2, 3)
	}
	// split total into nseg parts
	var parts []int
	rem := total
	for s := 0; s < nseg-1; s++ {
		minLeft := nseg - 1 - s
		if rem-minLeft < 1 {
			break
		}
		n := r.Range(1, rem-minLeft)
		if !o.SplitCodons {
			// keep boundaries on codon boundaries (in reading direction this is
			// only exact for the forward strand with codon_start 1; good enough
			// as a bias, exactness is not required)
			n = n - n%3
			if n == 0 {
				n = 3
			}
			if n >= rem {
				break
			}
		}
		parts = append(parts, n)
		rem -= n
	}
	parts = append(parts, rem)
	var gaps []int
	span := total
	for s := 0; s < len(parts)-1; s++ {
		g := 0
		switch r.Intn(4) {
		case 0:
			g = 0
		case 1:
			if o.AllowSlip && parts[s] >= 2 && parts[s+1] >= 2 {
				g = -1
			}
		default:
			g = r.Range(1, 10)
		}
		gaps = append(gaps, g)
		span += g
	}
	if span > L {
		return f, false
	}
	start := r.Range(1, L-span+1)
	switch r.Intn(5) {
	case 0:
		start = 1
	case 1:
		start = L - span + 1
	}
	p := start
	for s, n := range parts {
		f.Segs = append(f.Segs, [2]int{p, p + n - 1})
		p += n
		if s < len(gaps) {
			p += gaps[s]
		}
	}
	if o.Rotate && len(f.Segs) >= 2 && r.Chance(0.2) {
		// join(b..c,a..b') : the written order is the order of concatenation
		f.Segs = append(f.Segs[1:], f.Segs[0])
	}
	// the first segment in reading order must hold the bases codon_start skips
	first := f.Segs[0]
	if f.Strand < 0 {
		first = f.Segs[len(f.Segs)-1]
	}
	if first[1]-first[0]+1 < f.CodonStart {
		return f, false
	}
	if len(f.CodingPositions())%3 != 0 {
		return f, false
	}
	return f, true
}

// makeChildren creates named mature_protein_region_of_CDS children inside one
// segment of an unnamed parent, in frame with the parent.
func makeChildren(r *fw.Rng, parent Feature) []Feature {
	pos := parent.CodingPositions()
	ncod := len(pos) / 3
	var out []Feature
	c := 0
	n := 0
	for c < ncod && n < 3 {
		c0 := c + r.Intn(2)
		c1 := c0 + r.Range(1, 6)
		if c1 > ncod {
			c1 = ncod
		}
		if c0 >= c1 {
			break
		}
		// genomic extent of codons [c0,c1)
		sub := pos[3*c0 : 3*c1]
		lo, hi := sub[0], sub[0]
		contiguous := true
		for k := 1; k < len(sub); k++ {
			d := sub[k] - sub[k-1]
			if d != parent.Strand {
				contiguous = false
			}
			if sub[k] < lo {
				lo = sub[k]
			}
			if sub[k] > hi {
				hi = sub[k]
			}
		}
		if contiguous {
			out = append(out, Feature{ID: fmt.Sprintf("%s-m%d", parent.ID, n), Name: fmt.Sprintf("mat%s%d", strings.TrimPrefix(parent.ID, "cds-"), n), Strand: parent.Strand,
				Segs: [][2]int{{lo, hi}}, CodonStart: 1, Kind: "mature", Parent: parent.ID, NoID: r.Chance(0.3)})
			n++
		}
		c = c1
	}
	return out
}

// Named returns the named features.
func (a Annotation) Named() []Feature {
	var o []Feature
	for _, f := range a.Feats {
		if f.Name != "" {
			o = append(o, f)
		}
	}
	return o
}

// Bounds returns the smallest and largest position of the feature.
func (f Feature) Bounds() (int, int) {
	lo, hi := f.Segs[0][0], f.Segs[0][1]
	for _, s := range f.Segs {
		if s[0] < lo {
			lo = s[0]
		}
		if s[1] > hi {
			hi = s[1]
		}
	}
	return lo, hi
}

// ---------------------------------------------------------------------------
// GenBank rendering

func gbLocation(f Feature) string {
	rng := func(s [2]int) string { return fmt.Sprintf("%d..%d", s[0], s[1]) }
	if f.Strand > 0 {
		if len(f.Segs) == 1 {
			return rng(f.Segs[0])
		}
		var p []string
		for _, s := range f.Segs {
			p = append(p, rng(s))
		}
		return "join(" + strings.Join(p, ",") + ")"
	}
	if len(f.Segs) == 1 {
		return "complement(" + rng(f.Segs[0]) + ")"
	}
	if f.LocForm == 0 {
		var p []string
		for _, s := range f.Segs {
			p = append(p, rng(s))
		}
		return "complement(join(" + strings.Join(p, ",") + "))"
	}
	var p []string
	for i := len(f.Segs) - 1; i >= 0; i-- {
		p = append(p, "complement("+rng(f.Segs[i])+")")
	}
	return "join(" + strings.Join(p, ",") + ")"
}

// RenderGenBank renders the named CDS features as a GenBank flat file.
// translate must return the protein of a feature including the final stop.
func RenderGenBank(r *fw.Rng, a Annotation, translate func(Feature) string) string {
	var sb strings.Builder
	L := len(a.Ref)
	sb.WriteString(fmt.Sprintf("LOCUS       %-16s %6d bp ss-RNA     linear   VRL 18-MAR-2020\n", a.RefName, L))
	sb.WriteString("DEFINITION  Synthetic test genome, complete genome.\n")
	sb.WriteString("ACCESSION   " + a.RefName + "\n")
	sb.WriteString("VERSION     " + a.RefName + "\n")
	sb.WriteString("KEYWORDS    .\n")
	sb.WriteString("SOURCE      Synthetic virus\n  ORGANISM  Synthetic virus\n            Viruses; Riboviria.\n")
	sb.WriteString("FEATURES             Location/Qualifiers\n")
	sb.WriteString(fmt.Sprintf("     source          1..%d\n", L))
	sb.WriteString("                     /organism=\"Synthetic virus\"\n")
	sb.WriteString("                     /mol_type=\"genomic RNA\"\n")
	for _, f := range a.Feats {
		if f.Name == "" || f.Kind != "CDS" {
			continue
		}
		loc := gbLocation(f)
		if r.Chance(0.5) {
			lo, hi := f.Bounds()
			sb.WriteString(fmt.Sprintf("     gene            %d..%d\n", lo, hi))
			sb.WriteString(fmt.Sprintf("                     /gene=\"%s\"\n", f.Name))
		}
		if r.Chance(0.2) {
			// another feature kind in between, with its own /gene qualifier
			lo, hi := f.Bounds()
			kind := []string{"mat_peptide", "misc_feature", "5'UTR", "stem_loop"}[r.Intn(4)]
			sb.WriteString(fmt.Sprintf("     %-15s %d..%d\n", kind, lo, hi))
			sb.WriteString(fmt.Sprintf("                     /gene=\"%s\"\n", f.Name))
			sb.WriteString("                     /product=\"not a CDS\"\n")
		}
		sb.WriteString(fmt.Sprintf("     CDS             %s\n", loc))
		// qualifiers in varying order, with the ones gofasta does not use in between
		quals := []string{fmt.Sprintf("/gene=\"%s\"", f.Name), fmt.Sprintf("/codon_start=%d", f.CodonStart), fmt.Sprintf("/product=\"%s protein\"", f.Name)}
		for _, extra := range []string{"/note=\"synthetic feature; two words\"", "/locus_tag=\"SYN_" + f.ID + "\"", "/db_xref=\"GeneID:43740578\"", "/protein_id=\"QHD43415.1\"", "/ribosomal_slippage", "/transl_table=1"} {
			if r.Chance(0.25) {
				quals = append(quals, extra)
			}
		}
		if r.Chance(0.5) {
			p := r.Perm(len(quals))
			sh := make([]string, len(quals))
			for i, j := range p {
				sh[i] = quals[j]
			}
			quals = sh
		}
		for _, q := range quals {
			if strings.HasPrefix(q, "/note=") && r.Chance(0.5) {
				// a free-text value wrapped over several lines; a continuation line may begin with
				// any character of the text, also '/' or a word that looks like a qualifier
				sb.WriteString("                     /note=\"synthetic feature; see https://example.org\n")
				sb.WriteString("                     " + []string{"/record?id=" + f.ID + " for details", "/gene=" + f.Name + "x is not this gene", "two words"}[r.Intn(3)] + "\"\n")
				continue
			}
			sb.WriteString("                     " + q + "\n")
		}
		prot := translate(f)
		prot = strings.TrimSuffix(prot, "*")
		text := "/translation=\"" + prot + "\""
		for len(text) > 58 {
			sb.WriteString("                     " + text[:58] + "\n")
			text = text[58:]
		}
		sb.WriteString("                     " + text + "\n")
	}
	sb.WriteString("ORIGIN\n")
	low := strings.ToLower(a.Ref)
	for i := 0; i < L; i += 60 {
		sb.WriteString(fmt.Sprintf("%9d", i+1))
		for j := i; j < i+60 && j < L; j += 10 {
			e := j + 10
			if e > L {
				e = L
			}
			sb.WriteString(" " + low[j:e])
		}
		sb.WriteString("\n")
	}
	sb.WriteString("//\n")
	return sb.String()
}

// ---------------------------------------------------------------------------
// GFF3 rendering

// gffPhases returns the spec-correct phase of each row (rows in ascending
// genomic order): the number of bases to skip at the 5' end of the row (in
// reading direction) to reach the next codon start.
func gffPhases(f Feature) []int {
	n := len(f.Segs)
	ph := make([]int, n)
	consumed := -(f.CodonStart - 1) // coding bases consumed so far (negative: still to skip)
	order := make([]int, n)
	for i := range order {
		if f.Strand > 0 {
			order[i] = i
		} else {
			order[i] = n - 1 - i
		}
	}
	for _, si := range order {
		if consumed < 0 {
			ph[si] = -consumed
		} else {
			ph[si] = (3 - consumed%3) % 3
		}
		consumed += f.Segs[si][1] - f.Segs[si][0] + 1
	}
	return ph
}

// RenderGFF renders the annotation as GFF3 with a ##FASTA section.
// withFasta=false omits the sequence (the reference must then come from --reference).
func RenderGFF(r *fw.Rng, a Annotation, withFasta bool) string {
	return RenderGFFSeq(r, a, withFasta, a.Ref)
}

// RenderGFFSeq is RenderGFF with an explicit sequence for the ##FASTA section (which may
// differ from the reference the caller passes separately, e.g. an older genome version).
func RenderGFFSeq(r *fw.Rng, a Annotation, withFasta bool, fastaSeq string) string {
	var sb strings.Builder
	sb.WriteString("##gff-version 3\n")
	if r.Chance(0.5) {
		sb.WriteString("# a comment line\n")
	}
	if r.Chance(0.7) {
		sb.WriteString(fmt.Sprintf("##sequence-region %s 1 %d\n", a.RefName, len(a.Ref)))
	}
	var groups [][]string // the rows of each feature, and what follows them
	emit := func(line string) { groups[len(groups)-1] = append(groups[len(groups)-1], line) }
	for _, f := range a.Feats {
		groups = append(groups, nil)
		strand := "+"
		if f.Strand < 0 {
			strand = "-"
		}
		ph := gffPhases(f)
		for i, s := range f.Segs {
			attrs := "ID=" + f.ID
			if f.NoID && f.Parent != "" {
				attrs = "Parent=" + f.Parent // ID is optional in GFF3 for features nothing refers to
			} else if f.NoID && f.Name != "" && len(f.Segs) == 1 {
				attrs = "gbkey=CDS" // the Name follows below
			} else if f.Parent != "" {
				attrs += ";Parent=" + f.Parent
			}
			if f.Name != "" {
				attrs += ";Name=" + f.Name
			}
			typ := "CDS"
			phase := fmt.Sprint(ph[i])
			if f.Kind == "mature" {
				typ = "mature_protein_region_of_CDS"
				phase = "."
			}
			if r.Chance(0.3) {
				// attributes gofasta does not use, before and/or after the ones it does
				extra := []string{"gbkey=CDS", "product=" + typ + " product%2C escaped", "Dbxref=GeneID:43740578,UniProt:P0DTC2", "Note=two words", "protein_id=QHD43415.1",
					"gene=alt_" + f.ID, "gene=alt_" + f.ID + ";locus_tag=GU280_gp01", "gene_synonym=" + f.ID}
				e := extra[r.Intn(len(extra))]
				if r.Chance(0.5) {
					attrs = attrs + ";" + e
				} else if !strings.HasPrefix(attrs, "Parent=") || true {
					attrs = e + ";" + attrs
				}
			}
			src, score := "synthetic", "."
			if r.Chance(0.2) {
				src, score = []string{"RefSeq", "GenBank", "."}[r.Intn(3)], []string{".", "0.5", "100"}[r.Intn(3)]
			}
			emit(fmt.Sprintf("%s\t%s\t%s\t%d\t%d\t%s\t%s\t%s\t%s\n", a.RefName, src, typ, s[0], s[1], score, strand, phase, attrs))
		}
		if r.Chance(0.15) {
			lo, hi := f.Bounds()
			kind := []string{"five_prime_UTR", "stem_loop", "region", "exon"}[r.Intn(4)]
			emit(fmt.Sprintf("%s\tsynthetic\t%s\t%d\t%d\t.\t%s\t.\tID=other-%s;Name=%s\n", a.RefName, kind, lo, hi, strand, f.ID, "other_"+f.ID))
		}
		if r.Chance(0.2) {
			lo, hi := f.Bounds()
			emit(fmt.Sprintf("%s\tsynthetic\tgene\t%d\t%d\t.\t%s\t.\tID=gene-%s\n", a.RefName, lo, hi, strand, f.ID))
		}
	}
	// the rows of one ID need not be adjacent (a file sorted by start coordinate lists a gene
	// that lies in an intron between the rows of the spliced one): sometimes the next feature's
	// rows go between the first and second row of a multi-row feature
	for i := 0; i < len(groups); i++ {
		if i+1 < len(groups) && len(a.Feats[i].Segs) >= 2 && a.Feats[i+1].Parent == "" && r.Chance(0.25) {
			sb.WriteString(groups[i][0])
			for _, l := range groups[i+1] {
				sb.WriteString(l)
			}
			for _, l := range groups[i][1:] {
				sb.WriteString(l)
			}
			i++
			continue
		}
		for _, l := range groups[i] {
			sb.WriteString(l)
		}
	}
	if withFasta {
		sb.WriteString("##FASTA\n>" + a.RefName + "\n")
		wrapW := []int{0, 60, 70}[r.Intn(3)]
		if len(fastaSeq) > 60000 {
			// gofasta's GFF3 reader takes lines of at most 64 KiB (longer ones are refused with an
			// error by variants and sam variants alike): long genomes are embedded wrapped
			wrapW = []int{60, 70}[r.Intn(2)]
		}
		sb.WriteString(WrapSeq(fastaSeq, wrapW))
	}
	return sb.String()
}

// HasSplitContinuation reports whether a multi-row feature has a continuation
// row with a non-zero phase (a codon split across rows).
func HasSplitContinuation(f Feature) bool {
	ph := gffPhases(f)
	first := 0
	if f.Strand < 0 {
		first = len(f.Segs) - 1
	}
	for i, p := range ph {
		if i != first && p != 0 {
			return true
		}
	}
	return false
}
