package gen

import (
	"fmt"
	"strings"

	"verifharness/internal/fw"
)

// UpdownInput is a reference, query set and target set for updown topranking.
type UpdownInput struct {
	Ref     string
	Queries []FastaRec
	Targets []FastaRec
}

// UpdownProfile tunes MakeUpdown.
type UpdownProfile struct {
	MaxQueries, MaxTargets int
	Width                  [2]int // genome width range; zero = 12..120
	PAmbTract              float64 // probability that a sequence gets ambiguity tracts
	MultiHit               bool
}

// MakeUpdown builds tie-rich topranking inputs: a pool of SNP sites from which
// queries draw, and targets built relative to a query so that every bin
// (same/up/down/side) is populated, with shared SNPs, multiple hits and
// ambiguity tracts.
func MakeUpdown(r *fw.Rng, p UpdownProfile) UpdownInput {
	W := r.Range(12, 120)
	if p.Width[1] > 0 {
		W = r.Range(p.Width[0], p.Width[1])
	}
	ref := Genome(r, W)
	type site struct {
		pos int
		alt [2]byte
	}
	var pool []site
	used := map[int]bool{}
	ns := r.Range(4, 14)
	for len(pool) < ns && len(used) < W {
		pp := r.Intn(W)
		if used[pp] {
			continue
		}
		used[pp] = true
		a := OtherBase(r, ref[pp])
		b := a
		for b == a || b == ref[pp] {
			b = Bases[r.Intn(4)]
		}
		pool = append(pool, site{pp, [2]byte{a, b}})
	}
	apply := func(base string, idxs []int, altIdx int) string {
		b := []byte(base)
		for _, i := range idxs {
			b[pool[i].pos] = pool[i].alt[altIdx]
		}
		return string(b)
	}
	subset := func(k int) []int {
		perm := r.Perm(len(pool))
		if k > len(perm) {
			k = len(perm)
		}
		return perm[:k]
	}
	tract := func(s string) string {
		if !r.Chance(p.PAmbTract) {
			return s
		}
		b := []byte(s)
		for k := 0; k < r.Range(1, 3); k++ {
			st := r.Intn(W)
			if r.Chance(0.5) && len(pool) > 0 {
				st = pool[r.Intn(len(pool))].pos - r.Intn(2)
				if st < 0 {
					st = 0
				}
			}
			n := r.Range(1, 6)
			sym := "NNN-?RY"[r.Intn(7)]
			for i := st; i < st+n && i < W; i++ {
				b[i] = sym
			}
		}
		return string(b)
	}
	var in UpdownInput
	in.Ref = ref
	nq := r.Range(1, p.MaxQueries)
	qsets := make([][]int, nq)
	for i := 0; i < nq; i++ {
		qsets[i] = subset(r.Range(0, 5))
		s := tract(apply(ref, qsets[i], 0))
		in.Queries = append(in.Queries, FastaRec{ID: fmt.Sprintf("query%d", i), Desc: fmt.Sprintf("query%d", i), Seq: s})
	}
	nt := r.Range(1, p.MaxTargets)
	for i := 0; i < nt; i++ {
		qi := r.Intn(nq)
		qs := qsets[qi]
		var s string
		switch r.Intn(6) {
		case 0: // same
			s = apply(ref, qs, 0)
		case 1: // up: target has a subset of the query's SNPs
			k := 0
			if len(qs) > 0 {
				k = r.Intn(len(qs))
			}
			s = apply(ref, qs[:k], 0)
		case 2: // down: target has the query's SNPs plus private ones
			s = apply(apply(ref, qs, 0), subset(r.Range(1, 3)), 0)
		case 3: // side: drop some, add some
			k := 0
			if len(qs) > 0 {
				k = r.Intn(len(qs))
			}
			s = apply(apply(ref, qs[:k], 0), subset(r.Range(1, 3)), 0)
		case 4: // multiple hit: another allele at one of the query's sites
			s = apply(ref, qs, 0)
			if p.MultiHit && len(qs) > 0 {
				s = apply(s, qs[:1], 1)
			}
		default:
			s = apply(ref, subset(r.Range(0, 6)), r.Intn(2))
		}
		if i > 0 && r.Chance(0.1) {
			s = in.Targets[r.Intn(i)].Seq
		}
		s = tract(s)
		if r.Chance(0.1) {
			s = strings.ToLower(s)
		}
		in.Targets = append(in.Targets, FastaRec{ID: fmt.Sprintf("target%d", i), Desc: fmt.Sprintf("target%d", i), Seq: s})
	}
	if r.Chance(0.15) {
		// one target carries the name of a query
		k, j := r.Intn(nq), r.Intn(nt)
		in.Targets[j].ID, in.Targets[j].Desc = in.Queries[k].ID, in.Queries[k].Desc
	}
	if r.Chance(0.08) {
		// a sequence that is literally called "query" (the first word of the list header)
		if r.Chance(0.5) {
			k := r.Intn(nq)
			in.Queries[k].ID, in.Queries[k].Desc = "query", "query"
		} else {
			k := r.Intn(nt)
			in.Targets[k].ID, in.Targets[k].Desc = "query", "query"
		}
	}
	if r.Chance(0.08) {
		// names that start with '#' or carry a percent-encoding
		pre := []string{"#", "#", "%2F", "%41"}[r.Intn(4)]
		if r.Chance(0.5) {
			k := r.Intn(nq)
			in.Queries[k].ID = pre + in.Queries[k].ID
			in.Queries[k].Desc = in.Queries[k].ID
		} else {
			k := r.Intn(nt)
			in.Targets[k].ID = pre + in.Targets[k].ID
			in.Targets[k].Desc = in.Targets[k].ID
		}
	}
	Describe(r, in.Queries)
	Describe(r, in.Targets)
	return in
}
