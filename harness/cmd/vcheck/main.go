// vcheck is the single harness binary: `vcheck run <ID> <tier>` is the parent
// that a MANIFEST check invokes; `vcheck worker ...` runs a shard of cases;
// `vcheck replay <dir>` re-runs one recorded witness.
package main

import (
	"fmt"
	"os"

	"verifharness/internal/fw"
	_ "verifharness/internal/props"
)

func main() {
	if len(os.Args) < 2 {
		fmt.Fprintln(os.Stderr, "usage: vcheck run <ID> <quick|thorough> | replay <dir> | list")
		os.Exit(2)
	}
	switch os.Args[1] {
	case "run":
		if len(os.Args) != 4 {
			fmt.Fprintln(os.Stderr, "usage: vcheck run <ID> <quick|thorough>")
			os.Exit(2)
		}
		os.Exit(fw.RunMain(os.Args[2], os.Args[3]))
	case "worker":
		os.Exit(fw.WorkerMain(os.Args[2:]))
	case "replay":
		os.Exit(fw.ReplayMain(os.Args[2]))
	case "list":
		for _, id := range fw.IDs() {
			fmt.Println(id)
		}
	default:
		fmt.Fprintln(os.Stderr, "unknown subcommand")
		os.Exit(2)
	}
}
