# sourced by every script: offline Go settings and paths
export GOFLAGS=-mod=mod GOPROXY=off GOSUMDB=off GOTOOLCHAIN=local
# the directory this checkout of the machinery lives in (so that a snapshot of /verif is self-contained)
_self="$(cd "$(dirname "$0")/.." 2>/dev/null && pwd)"
if [ -z "${VERIF_DIR:-}" ]; then
  if [ -f "$_self/MANIFEST.json" ]; then VERIF_DIR="$_self"; else VERIF_DIR=/verif; fi
fi
export VERIF_DIR
export VERIF_REPO="${VERIF_REPO:-/repo}"
export VERIF_BUILD="${VERIF_BUILD:-$VERIF_DIR/.build}"
export VERIF_GOFASTA_BIN="$VERIF_BUILD/gofasta"
export VERIF_GOFASTA_BIN_RACE="$VERIF_BUILD/gofasta-race"
export VERIF_VCHECK_RACE="$VERIF_BUILD/vcheck-race"
