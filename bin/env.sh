# sourced by every script: offline Go settings and paths
export GOFLAGS=-mod=mod GOPROXY=off GOSUMDB=off GOTOOLCHAIN=local
export VERIF_DIR="${VERIF_DIR:-/verif}"
export VERIF_REPO="${VERIF_REPO:-/repo}"
export VERIF_BUILD="${VERIF_BUILD:-$VERIF_DIR/.build}"
export VERIF_GOFASTA_BIN="$VERIF_BUILD/gofasta"
export VERIF_GOFASTA_BIN_RACE="$VERIF_BUILD/gofasta-race"
export VERIF_VCHECK_RACE="$VERIF_BUILD/vcheck-race"
